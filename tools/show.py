#!/usr/bin/env python3
"""show.py TRACE LINE [CONTEXT] : print a window of a trace in compact form"""
import sys, json
lines = open(sys.argv[1]).read().splitlines()
n = int(sys.argv[2]); c = int(sys.argv[3]) if len(sys.argv) > 3 else 12
def hexs(b): return ' '.join('%02x' % x for x in b)
for i in range(max(0, n - c - 1), min(len(lines), n + 3)):
    e = json.loads(lines[i]); k = e['e']
    if k in ('w', 'r', 'b'):
        s = f"{k} {hexs(e['bytes'])}" + (f" (of {e['len']})" if k == 'w' else '')
    elif k == 'ret':
        r = e['r']; o = e['obs']
        s = f"ret {e['op']} {r['k']}:{r['v']} code={r['code']} h={r['h']} msg={r['hasmsg']} | live={o['live']} cp={o['cp']} q={o['q']} h={''.join(o['h'])} io={o['io']} t={o['t']} | quota={e['snap']['quota']}/{e['snap']['maxq']} ret={e['snap']['ret']} rel={e['snap']['rel']} ctl={e['snap']['ctl']} np={e['snap']['np']} pt={e['snap']['pt']}"
    elif k in ('cancel', 'drop'):
        o = e['obs']
        s = f"{k} {e.get('op','')} | live={o['live']} q={o['q']} h={''.join(o['h'])} t={o['t']} ret={e['snap']['ret']} rel={e['snap']['rel']} ctl={e['snap']['ctl']}"
    elif k == 'publish':
        s = f"publish q{e['qos']} topic={bytes(e['topic'])!r} plen={len(e['payload'])} props={[(p['id'],p['n']) for p in e['props']]} retain={e['retain']}"
    elif k == 'cfg':
        s = 'cfg ' + json.dumps({x: e['cfg'][x] for x in ('name', 'rx', 'tx', 'ka', 'downgrade')})
    else:
        s = json.dumps({x: y for x, y in e.items() if x != 'call'})
    print(('>>' if i + 1 == n else '  '), i + 1, s[:400])
