#!/usr/bin/env python3
"""Systematic (not random) request programs, run by `mqv program` against the deterministic benign broker:

  legality  C19: every property kind x packet context (publish / subscribe / unsubscribe / disconnect / will) with
            boundary values of its wire type; the Observer's ReqPropsOk decides what must be refused.
  shapes    C09: every subscription option combination, keep-alive / session-expiry / will QoS x retain boundaries,
            topic and payload lengths across the 1/2-byte and 2/3-byte remaining-length boundaries, buffers that are
            too small by one byte.
  maxima    C14: broker Maximum Packet Size from 2 bytes up with requests around the limit.

One program = {"cfg": ..., "steps": [API calls and broker packets], "connack": [properties of every CONNACK]}."""
import json

KINDS = {  # id -> wire type
    0x01: "byte", 0x02: "u32", 0x03: "str", 0x08: "str", 0x09: "bin", 0x0B: "var", 0x11: "u32", 0x12: "str", 0x13: "u16",
    0x15: "str", 0x16: "bin", 0x17: "byte", 0x18: "u32", 0x19: "byte", 0x1A: "str", 0x1C: "str", 0x1F: "str", 0x21: "u16",
    0x22: "u16", 0x23: "u16", 0x24: "byte", 0x25: "byte", 0x26: "pair", 0x27: "u32", 0x28: "byte", 0x29: "byte", 0x2A: "byte",
}


def b(s):
    return list(s.encode())


def values(kind):
    t = KINDS[kind]
    if t == "byte":
        return [{"n": v} for v in (0, 1, 2, 255)]
    if t == "u16":
        return [{"n": v} for v in (0, 1, 65535)]
    if t == "u32":
        return [{"n": v} for v in (0, 1, 0xFFFFFFFF)]
    if t == "var":
        # both sides of every width boundary of the variable byte integer, and inside the four-byte range
        return [{"n": v} for v in (0, 1, 127, 128, 16383, 16384, 2097151, 2097152, 16777215, 16777216, 33554431, 33554432,
                                   268435455)]
    if t == "str":
        return [{"s": b("")}, {"s": b("x/y")}]
    if t == "bin":
        return [{"s": []}, {"s": [0, 255, 7]}]
    return [{"s": b("k"), "t": b("v")}, {"s": b(""), "t": b("")}]


def prop(kind, v):
    return dict({"id": kind, "n": 0, "s": [], "t": []}, **v)


POLLS = [{"e": "poll"}, {"e": "poll"}, {"e": "poll"}]
BASE = {"rx": 256, "tx": 1152, "ka": 0, "sei": 300}


def legality():
    progs = []
    for ctx in ("publish", "subscribe", "unsubscribe"):
        steps, n = [], 0
        for kind in sorted(KINDS):
            for v in values(kind):
                n += 1
                p = [prop(kind, v)]
                if ctx == "publish":
                    q = n % 3
                    steps.append({"e": "publish", "qos": q, "topic": b("l/%d" % n), "payload": b("p%d" % n), "props": p})
                    # ... and attached to a correlated publication (another representation of the property set;
                    # not Correlation Data itself: twice in one packet is the application's contradiction)
                    if kind != 0x09:
                        steps += POLLS
                        steps.append({"e": "publish", "qos": (q + 1) % 3, "topic": b("lc/%d" % n), "payload": b("p%d" % n), "props": p,
                                      "corr": [n % 251, 7], "corr_first": bool(n % 2)})
                elif ctx == "subscribe":
                    steps.append({"e": "subscribe", "filters": [{"topic": b("l/%d/#" % n), "qos": n % 3}], "props": p})
                else:
                    steps.append({"e": "unsubscribe", "topics": [b("l/%d" % n)], "props": p})
                steps += POLLS
        # two legal properties together, a legal one next to an illegal one, duplicates
        both = [prop(0x26, {"s": b("a"), "t": b("1")}), prop(0x26, {"s": b("a"), "t": b("2")})]
        if ctx == "publish":
            steps.append({"e": "publish", "qos": 1, "topic": b("l/two"), "payload": b("x"), "props": both + [prop(0x02, {"n": 9})]})
            steps.append({"e": "publish", "qos": 1, "topic": b("l/mixed"), "payload": b("x"), "props": both + [prop(0x21, {"n": 9})]})
        elif ctx == "subscribe":
            steps.append({"e": "subscribe", "filters": [{"topic": b("l/two"), "qos": 1}], "props": both + [prop(0x0B, {"n": 77})]})
            steps.append({"e": "subscribe", "filters": [], "props": []})
        else:
            steps.append({"e": "unsubscribe", "topics": [b("l/two")], "props": both})
            steps.append({"e": "unsubscribe", "topics": [], "props": []})
        steps += POLLS * 3
        progs.append({"cfg": dict(BASE, client_id=b("lg" + ctx[:3]), name="legality-" + ctx), "steps": steps})
    # disconnect ends the run: one run per case
    n = 0
    for kind in sorted(KINDS):
        for v in values(kind)[:2]:
            n += 1
            progs.append({"cfg": dict(BASE, client_id=b("lgdis"), name="legality-disconnect-%d" % n),
                          "steps": [{"e": "disconnect", "reason": 0 if n % 2 else 4, "props": [prop(kind, v)]}]})
    progs.append({"cfg": dict(BASE, client_id=b("lgdis"), name="legality-disconnect-empty"),
                  "steps": [{"e": "disconnect", "reason": 0, "props": []}]})
    # wills: the configuration itself is the request
    n = 0
    for kind in sorted(KINDS):
        for v in values(kind):
            n += 1
            cfg = dict(BASE, client_id=b("lgw%d" % n), name="legality-will-%d" % n,
                       will={"topic": b("w/%d" % n), "payload": b("bye"), "qos": n % 3, "retain": bool(n % 2),
                             "props": [prop(kind, v)]})
            progs.append({"cfg": cfg, "steps": [{"e": "publish", "qos": 0, "topic": b("hello"), "payload": b("x")}]})
    return progs


def shapes():
    progs = []
    # every subscription option combination
    steps, n = [], 0
    for qos in (0, 1, 2):
        for nl in (False, True):
            for rap in (False, True):
                for rh in (0, 1, 2):
                    n += 1
                    steps.append({"e": "subscribe", "props": [],
                                  "filters": [{"topic": b("o/%d/+" % n), "qos": qos, "nl": nl, "rap": rap, "rh": rh}]})
                    steps += POLLS
    # several filters in one request, several topics in one unsubscribe
    steps.append({"e": "subscribe", "props": [], "filters": [{"topic": b("m/%d" % i), "qos": i % 3, "nl": bool(i % 2), "rh": i % 3}
                                                              for i in range(6)]})
    steps.append({"e": "unsubscribe", "props": [], "topics": [b("m/%d" % i) for i in range(6)]})
    steps += POLLS * 2
    progs.append({"cfg": dict(BASE, client_id=b("shsub"), name="shapes-subopts"), "steps": steps})
    # keep-alive / session expiry / will QoS x retain / auth
    n = 0
    for ka in (0, 1, 65535):
        for sei in (0, 1, 0xFFFFFFFF):
            n += 1
            cfg = {"rx": 128, "tx": 512, "ka": ka, "sei": sei, "client_id": b("shc%d" % n), "name": "shapes-conn-%d" % n}
            if n % 2:
                cfg["auth"] = {"user": b("user%d" % n), "pass": [n, 0, 255] if n % 4 == 1 else []}
            elif n % 4 == 0:
                cfg["auth"] = {"user": b(""), "pass": []}
            cfg["will"] = {"topic": b("w/%d" % n), "payload": list(range(n)), "qos": n % 3, "retain": bool(n % 2), "props": []}
            progs.append({"cfg": cfg, "steps": [{"e": "publish", "qos": 0, "topic": b("hello"), "payload": b("x")}]})
    for q in (0, 1, 2):
        for r in (False, True):
            n += 1
            cfg = {"rx": 128, "tx": 512, "ka": 60, "sei": 10, "client_id": b(""), "name": "shapes-will-%d-%d" % (q, r),
                   "will": {"topic": b("w"), "payload": [], "qos": q, "retain": r, "props": [prop(0x18, {"n": 5})]}}
            progs.append({"cfg": cfg, "steps": [{"e": "publish", "qos": 0, "topic": b("hello"), "payload": b("x")}]})
    # remaining-length boundaries: QoS 1 topic "a": remaining = 6 + payload; QoS 0: 4 + payload
    steps = []
    for rem in (0, 1, 126, 127, 128, 129, 16382, 16383, 16384, 16385):
        for q in (0, 1):
            plen = rem - (6 if q else 4)
            if plen < 0:
                continue
            steps.append({"e": "publish", "qos": q, "topic": b("a"), "payload": [(i * 7 + rem) % 251 for i in range(plen)]})
            steps += POLLS
    # long topics and many properties (the property-block length crosses 127)
    steps.append({"e": "publish", "qos": 1, "topic": b("t" * 300), "payload": b("x"),
                  "props": [prop(0x26, {"s": b("key%d" % i), "t": b("value-%d" % i)}) for i in range(12)]})
    steps += POLLS
    progs.append({"cfg": {"rx": 128, "tx": 40000, "ka": 0, "sei": 0, "client_id": b("shbig"), "name": "shapes-sizes"}, "steps": steps})
    # buffers too small by one byte, exact, one to spare (QoS 1: 5 reserved + 6 + payload; QoS 0: 5 + 4 + payload)
    for tx in (32, 64, 200):
        steps = []
        for q in (1, 0, 2):
            fit = tx - 5 - (6 if q else 4)
            for d in (-1, 0, 1):
                steps.append({"e": "publish", "qos": q, "topic": b("a"), "payload": [i % 251 for i in range(fit + d)]})
                steps += POLLS
        progs.append({"cfg": {"rx": 128, "tx": tx, "ka": 0, "sei": 0, "client_id": b("shs%d" % tx), "name": "shapes-small-%d" % tx},
                      "steps": steps})
    # a field longer than 65535 bytes cannot be encoded at all: the largest field that can, and one and two bytes more
    # (binary fields; a topic beyond the limit is only ever refused, so nothing has to be decoded)
    steps = []
    for q in (0, 1):
        for n in (65535, 65536, 65537):
            steps.append({"e": "publish", "qos": q, "topic": b("f"), "payload": b("x"), "props": [],
                          "corr": [(i * 3 + n) % 251 for i in range(n)]})
            steps += POLLS
        for n in (65536, 65537):
            steps.append({"e": "publish", "qos": q, "topic": [0x61 + (i % 26) for i in range(n)], "payload": b("x"), "props": []})
            steps += POLLS
            steps.append({"e": "publish", "qos": q, "topic": b("f"), "payload": b("x"),
                          "props": [prop(0x26, {"s": b("k"), "t": [0x61 + (i % 26) for i in range(n)]})]})
            steps += POLLS
    steps.append({"e": "subscribe", "props": [], "filters": [{"topic": [0x61 + (i % 26) for i in range(65536)], "qos": 1}]})
    steps.append({"e": "unsubscribe", "props": [], "topics": [[0x61 + (i % 26) for i in range(65536)]]})
    steps += POLLS
    progs.append({"cfg": {"rx": 128, "tx": 140000, "ka": 0, "sei": 0, "client_id": b("shfld"), "name": "shapes-fields"}, "steps": steps})
    return progs


def downgrade():
    """C19 / C07 / C09: the broker's Maximum QoS x the requested QoS x the auto-downgrade setting, with payloads
    that begin with zero bytes or are empty (whatever is misplaced reads as an identifier 0 or a length 0)."""
    progs = []
    for dg in (True, False):
        for mq in (0, 1, 2):
            steps, n = [], 0
            for q in (0, 1, 2):
                for payload in ([], [0, 0, 7], b("plain")):
                    for props in ([], [prop(0x26, {"s": b("k"), "t": b("v")})]):
                        n += 1
                        steps.append({"e": "publish", "qos": q, "topic": b("d/%d" % n), "payload": payload, "props": props})
                        steps += POLLS
            steps.append({"e": "subscribe", "props": [], "filters": [{"topic": b("d/#"), "qos": 2}]})
            steps += POLLS
            progs.append({"cfg": {"rx": 128, "tx": 512, "ka": 0, "sei": 0, "client_id": b("dg%d%d" % (dg, mq)), "downgrade": dg,
                                  "name": "downgrade-%d-%d" % (dg, mq)},
                          "steps": steps, "connack": [{"id": 0x24, "n": mq, "s": [], "t": []}] if mq < 2 else []})
    return progs


def maxima():
    progs = []
    for mp in (2, 3, 4, 5, 6, 7, 8, 10, 12, 16, 20, 24, 32, 48, 64):
        steps = []
        for q in (0, 1, 2):
            over = 2 + 3 + (2 if q else 0) + 1          # fixed header, topic "a", identifier, property length
            for d in (-1, 0, 1):
                plen = mp - over + d
                if plen >= 0:
                    steps.append({"e": "publish", "qos": q, "topic": b("a"), "payload": [7] * plen})
                    steps += POLLS
        # SUBSCRIBE: 2 + 2 + 1 + (2 + len + 1) = 8 + len; UNSUBSCRIBE: 2 + 2 + 1 + (2 + len) = 7 + len
        for d in (-1, 0, 1):
            tl = mp - 8 + d
            if tl >= 1:
                steps.append({"e": "subscribe", "props": [], "filters": [{"topic": b("s" * tl), "qos": 1}]})
                steps += POLLS
            tl = mp - 7 + d
            if tl >= 1:
                steps.append({"e": "unsubscribe", "props": [], "topics": [b("u" * tl)]})
                steps += POLLS
        # an inbound QoS 1 publish needs a five-byte acknowledgement: below 5 the connection must be closed
        steps.append({"e": "b", "bytes": [0x32, 7, 0, 1, 0x61, 0, 9, 0, 0x78]})
        steps += POLLS
        steps.append({"e": "disconnect", "reason": 0, "props": []})
        progs.append({"cfg": {"rx": 128, "tx": 512, "ka": 0, "sei": 0, "client_id": b("mx%d" % mp), "name": "maxima-%d" % mp},
                      "steps": steps, "connack": [{"id": 0x27, "n": mp, "s": [], "t": []}]})
        if mp < 4:
            # DISCONNECT in its reason-only form is three bytes long
            progs.append({"cfg": {"rx": 128, "tx": 512, "ka": 0, "sei": 0, "client_id": b("mx%dd" % mp), "name": "maxima-%d-disc" % mp},
                          "steps": [{"e": "disconnect", "reason": 4}, {"e": "disconnect", "reason": 0, "props": []},
                                    {"e": "disconnect"}],
                          "connack": [{"id": 0x27, "n": mp, "s": [], "t": []}]})
        if mp < 5:
            # the same for a QoS 2 publish (PUBREC) and for a PUBREL (PUBCOMP), each on its own connection
            for nm, pkt in (("q2", [0x34, 7, 0, 1, 0x61, 0, 9, 0, 0x78]), ("rel", [0x62, 2, 0, 9])):
                progs.append({"cfg": {"rx": 128, "tx": 512, "ka": 0, "sei": 0, "client_id": b("mx%d%s" % (mp, nm)),
                                      "name": "maxima-%d-%s" % (mp, nm)},
                              "steps": [{"e": "b", "bytes": pkt}] + POLLS + [{"e": "publish", "qos": 0, "topic": b("a"), "payload": []}],
                              "connack": [{"id": 0x27, "n": mp, "s": [], "t": []}]})
    return progs


def inbound():
    """C04: the inbound side at its limits -- eight QoS 2 exchanges open at once (the advertised Receive
    Maximum), retransmissions of each before its PUBREL, PUBREL for known and unknown identifiers,
    QoS 1 publishes with an identifier that is pending as QoS 2, sizes up to the receive buffer."""
    progs = []

    def pub(q, pid, payload, dup=False, topic="i"):
        t = b(topic)
        body = [len(t) >> 8, len(t) & 255] + t + ([pid >> 8, pid & 255] if q else []) + [0] + payload
        first = 0x30 | (q << 1) | (8 if dup else 0)
        n = len(body)
        ln = [n] if n < 128 else [(n & 127) | 128, n >> 7]
        return {"e": "b", "bytes": [first] + ln + body}

    def rel(pid, form=0):
        # the three legal shapes of a PUBREL: short, with a reason code (0x92 = the sender lost the exchange;
        # still answered with PUBCOMP), with a reason code and an empty property block
        tail = [[], [0x92], [0x00, 0x00], [0x92, 0x00], [0x00]][form]
        return {"e": "b", "bytes": [0x62, 2 + len(tail), pid >> 8, pid & 255] + tail}
    for rx in (128, 200):
        steps = []
        for pid in range(1, 9):
            steps += [pub(2, pid, [pid]), {"e": "poll"}, {"e": "poll"}]
        for pid in (3, 8, 1):                       # retransmissions while the table is full
            steps += [pub(2, pid, [pid], dup=True), {"e": "poll"}, {"e": "poll"}]
        steps += [pub(1, 3, [33]), {"e": "poll"}, {"e": "poll"}]          # QoS 1 with an identifier pending as QoS 2
        for pid in (2, 9, 2):                       # known, unknown, already released
            steps += [rel(pid), {"e": "poll"}, {"e": "poll"}]
        steps += [pub(2, 2, [22]), {"e": "poll"}, {"e": "poll"}]          # the identifier is free again: a new message
        for k, pid in enumerate((1, 3, 4, 5, 6, 7, 8, 2)):
            steps += [rel(pid, k % 5), {"e": "poll"}, {"e": "poll"}]
        # every identifier must be free again afterwards: a new message under each is delivered
        for pid in range(1, 9):
            steps += [pub(2, pid, [40 + pid]), {"e": "poll"}, {"e": "poll"}]
        for k, pid in enumerate(range(1, 9)):
            steps += [rel(pid, (k + 1) % 5), {"e": "poll"}, {"e": "poll"}]
        # sizes: one byte below, at, and (QoS 0) exactly the receive buffer
        for q in (0, 1, 2):
            over = 2 + 3 + (2 if q else 0) + 1 + (1 if rx - 6 >= 128 else 0)
            for d in (-1, 0):
                steps += [pub(q, 20 + q, [7] * (rx - over + d)), {"e": "poll"}, {"e": "poll"}, {"e": "poll"}]
            if q == 2:
                steps += [rel(22), {"e": "poll"}, {"e": "poll"}]
        steps += POLLS
        progs.append({"cfg": {"rx": rx, "tx": 512, "ka": 0, "sei": 0, "client_id": b("in%d" % rx), "name": "inbound-%d" % rx},
                      "steps": steps})
    return progs


def replies():
    """C20: requests at the top of the legal range -- correlation data of 65535 bytes (the reply's property block
    then needs more than 16 bits of length), long response topics, and both together with a payload."""
    progs = []

    def vi(n):
        out = []
        while True:
            d = n % 128
            n //= 128
            out.append(d | (128 if n else 0))
            if not n:
                return out

    def request(q, pid, rt, cd, payload):
        props = [8, len(rt) >> 8, len(rt) & 255] + rt + [9, len(cd) >> 8, len(cd) & 255] + cd
        body = [0, 1, 0x69] + ([pid >> 8, pid & 255] if q else []) + vi(len(props)) + props + payload
        return {"e": "b", "bytes": [0x30 | (q << 1)] + vi(len(body)) + body}
    cases = [(0, 65535, 2, 1), (1, 65533, 9, 0), (2, 65534, 3, 2), (0, 65532, 40, 5), (1, 61000, 4500, 1)]
    for k, (q, ncd, nrt, npay) in enumerate(cases):
        cd = [(7 * i + k) % 251 for i in range(ncd)]
        rt = [0x61 + (i % 26) for i in range(nrt)]
        steps = [request(q, 5 + k, rt, cd, [9] * npay)] + POLLS
        if q == 2:
            steps += [{"e": "b", "bytes": [0x62, 2, 0, 5 + k]}] + POLLS
        progs.append({"cfg": {"rx": 66200, "tx": 512, "ka": 0, "sei": 0, "client_id": b("rp%d" % k), "name": "replies-%d" % k},
                      "steps": steps})
    return progs


def window():
    """C06 / C03 / C07: the in-flight window at its edge.  The broker announces a Receive Maximum above, at and below the
    client's own eight exchanges (or none); the application issues more QoS 2 (QoS 1, mixed) publishes than the window
    holds before it polls once, lets everything complete, and after a resumed reconnect -- with the identifier counter
    placed on the identifier of the publish that went over the edge -- publishes again."""
    progs = []
    n = 0
    for rm in (None, 20, 65535, 9, 8, 3):
        for kinds in ((2,) * 10, (1,) * 10, (2, 1) * 5):
            n += 1
            steps = []
            w = min(rm or 8, 8)
            if n % 2:
                # all at once: the stored-packet table is the first limit met
                for i, q in enumerate(kinds):
                    steps.append({"e": "publish", "qos": q, "topic": b("w/%d" % i), "payload": b("p%d" % i), "props": []})
            else:
                # a window full of exchanges taken exactly to their PUBREC / PUBACK (one poll each) while the broker
                # holds its PUBCOMPs back, then two more publishes and the polls that would read their PUBRECs
                for i, q in enumerate(kinds[:w]):
                    steps.append({"e": "publish", "qos": q, "topic": b("w/%d" % i), "payload": b("p%d" % i), "props": []})
                steps.append({"e": "hold", "on": True})
                steps += [{"e": "poll"}] * w
                for i, q in enumerate(kinds[w:w + 2]):
                    steps.append({"e": "publish", "qos": q, "topic": b("w/%d" % (w + i)), "payload": b("q%d" % i), "props": []})
                steps += [{"e": "poll"}] * 3
                steps.append({"e": "hold", "on": False})
            steps += [{"e": "poll"}] * 40
            ck = [] if rm is None else [{"id": 0x21, "n": rm, "s": [], "t": []}]
            edge = min(rm or 8, 8) + 1
            steps.append({"e": "reconnect", "connack": ck, "setid": edge})
            for i in range(3):
                steps.append({"e": "publish", "qos": 1 + i % 2, "topic": b("w2/%d" % i), "payload": b("x"), "props": []})
            steps += [{"e": "poll"}] * 12
            progs.append({"cfg": {"rx": 128, "tx": 1152, "ka": 0, "sei": 300, "client_id": b("win%d" % n), "name": "window-%d" % n},
                          "steps": steps, "connack": ck})
    # exchanges carried over a resumed reconnect whose CONNACK announces a Receive Maximum above / at the client's own
    # limit: the window of the new connection is the clamped value minus what is carried over (S-C06-h clamped after
    # subtracting), so of eight further publishes exactly 8 - u are accepted and the rest refused with NotReady
    for rm in (None, 20, 65535, 9, 8):
        for u, q in ((3, 1), (3, 2), (5, 1), (1, 2)):
            n += 1
            steps = [{"e": "publish", "qos": q, "topic": b("c/%d" % i), "payload": b("u%d" % i), "props": []} for i in range(u)]
            ck = [] if rm is None else [{"id": 0x21, "n": rm, "s": [], "t": []}]
            steps.append({"e": "reconnect", "connack": ck})
            for i in range(8):
                steps.append({"e": "publish", "qos": 1 + i % 2, "topic": b("c2/%d" % i), "payload": b("y"), "props": []})
            steps += [{"e": "poll"}] * 40
            progs.append({"cfg": {"rx": 128, "tx": 1152, "ka": 0, "sei": 300, "client_id": b("win%d" % n), "name": "window-%d" % n},
                          "steps": steps, "connack": ck})
    # the same with the carried exchanges in their PUBREL phase (PUBCOMPs held back across the reconnect): they occupy
    # no stored-packet slot any more, so only the send quota stands between the application and an over-full window
    for rm in (None, 20, 65535, 9):
        for u in (3, 1):
            n += 1
            steps = [{"e": "publish", "qos": 2, "topic": b("h/%d" % i), "payload": b("u%d" % i), "props": []} for i in range(u)]
            steps.append({"e": "hold", "on": True})
            steps += [{"e": "poll"}] * u
            ck = [] if rm is None else [{"id": 0x21, "n": rm, "s": [], "t": []}]
            steps.append({"e": "reconnect", "connack": ck})
            for i in range(8):
                steps.append({"e": "publish", "qos": 1 + i % 2, "topic": b("h2/%d" % i), "payload": b("z"), "props": []})
            steps += [{"e": "poll"}] * 4
            steps.append({"e": "hold", "on": False})
            steps += [{"e": "poll"}] * 40
            progs.append({"cfg": {"rx": 128, "tx": 1152, "ka": 0, "sei": 300, "client_id": b("win%d" % n), "name": "window-%d" % n},
                          "steps": steps, "connack": ck})
    return progs


GROUPS = {"window": window, "replies": replies, "legality": legality, "shapes": shapes, "maxima": maxima, "inbound": inbound, "downgrade": downgrade}

if __name__ == "__main__":
    import sys
    for p in GROUPS[sys.argv[1]]():
        print(json.dumps(p))
