#!/usr/bin/env python3
"""rp.py REPLAY.json [context] : re-run a replay through the harness and show the window"""
import json, subprocess, sys
r = json.load(open(sys.argv[1]))
print(r['why'], r['event_line_in_run'], json.dumps(r['scenario']['cfg'])[:200])
open('/verif/work/x.ndjson', 'w').write(json.dumps(r['scenario']) + "\n")
subprocess.run(['/verif/harness/target/release/mqv', 'run', '/verif/work/x.ndjson', '/verif/work/x.trace'])
c = sys.argv[2] if len(sys.argv) > 2 else '25'
out = subprocess.run(['python3', '/verif/tools/show.py', '/verif/work/x.trace', str(r['event_line_in_run']), c], capture_output=True, text=True).stdout
print('\n'.join(l[:280] for l in out.splitlines()))
