"""Parser for the TLA+ values TLC prints (records, sequences, sets, strings, integers, booleans,
explicit functions (a :> b @@ c :> d)) and for the conjunction-of-equalities form of a state."""
import re

TOKEN = re.compile(r'\s*(<<|>>|\|->|:>|@@|/\\|[\[\]\{\}\(\),=]|"(?:[^"\\]|\\.)*"|-?\d+|[A-Za-z_][A-Za-z_0-9]*)')


def tokenize(s):
    pos, out = 0, []
    while pos < len(s):
        m = TOKEN.match(s, pos)
        if not m:
            if s[pos:].strip() == "":
                break
            raise ValueError("bad token at %r" % s[pos:pos + 30])
        out.append(m.group(1))
        pos = m.end()
    return out


class P:
    def __init__(self, toks):
        self.t, self.i = toks, 0

    def peek(self):
        return self.t[self.i] if self.i < len(self.t) else None

    def next(self):
        tok = self.t[self.i]
        self.i += 1
        return tok

    def expect(self, tok):
        got = self.next()
        if got != tok:
            raise ValueError("expected %s got %s" % (tok, got))

    def value(self):
        tok = self.next()
        if tok == "<<":
            out = []
            while self.peek() != ">>":
                out.append(self.value())
                if self.peek() == ",":
                    self.next()
            self.next()
            return out
        if tok == "{":
            out = []
            while self.peek() != "}":
                out.append(self.value())
                if self.peek() == ",":
                    self.next()
            self.next()
            return {"__set__": out}
        if tok == "[":
            out = {}
            while self.peek() != "]":
                k = self.next()
                self.expect("|->")
                out[k] = self.value()
                if self.peek() == ",":
                    self.next()
            self.next()
            return out
        if tok == "(":
            out = {}
            while True:
                k = self.value()
                self.expect(":>")
                out[str(k)] = self.value()
                if self.peek() == "@@":
                    self.next()
                    continue
                break
            self.expect(")")
            return out
        if tok == "TRUE":
            return True
        if tok == "FALSE":
            return False
        if tok.startswith('"'):
            return tok[1:-1]
        if re.match(r"-?\d+$", tok):
            return int(tok)
        return tok


def parse_value(s):
    return P(tokenize(s)).value()


def parse_state(s):
    """'/\\ a = v /\\ b = w' -> {a: v, b: w}"""
    p = P(tokenize(s))
    out = {}
    while p.peek() is not None:
        if p.peek() == "/\\":
            p.next()
        name = p.next()
        p.expect("=")
        out[name] = p.value()
    return out


def parse_call(label):
    """'IoWrite(TRUE)' -> ('IoWrite', [True]); 'AppConnect' -> ('AppConnect', [])"""
    m = re.match(r"^([A-Za-z_0-9]+)(?:\((.*)\))?$", label, re.S)
    name, args = m.group(1), m.group(2)
    if args is None:
        return name, []
    p = P(tokenize(args))
    out = []
    while p.peek() is not None:
        out.append(p.value())
        if p.peek() == ",":
            p.next()
    return name, out


def unset(v):
    """sets -> sorted lists (recursively)"""
    if isinstance(v, dict):
        if "__set__" in v:
            return sorted((unset(x) for x in v["__set__"]), key=repr)
        return {k: unset(x) for k, x in v.items()}
    if isinstance(v, list):
        return [unset(x) for x in v]
    return v
