#!/usr/bin/env python3
"""Behaviours of spec/Reader.tla (packet reader under every chunking) replayed against the real
crate: the inbound stream is injected, every read() call hands over exactly the bytes the behaviour
says, and the window the client offers to each read() must be the one the specification computes."""
import json
import os
import re
import subprocess
import sys

sys.path.insert(0, os.path.dirname(os.path.abspath(__file__)))
import replay  # noqa: E402

BIG = replay.BIG


def gen(seed, num, depth, workdir, rx, timeout=300):
    os.makedirs(workdir, exist_ok=True)
    for f in ("Reader.tla", "MC_reader.tla"):
        subprocess.run(["cp", os.path.join(replay.SPEC, f), workdir], check=True)
    open(os.path.join(workdir, "sim.cfg"), "w").write(
        "SPECIFICATION Spec\nCONSTANTS\n  RX = %d\n  Dev = {}\n  Record = TRUE\n  Streams <- StreamSet\n"
        "INVARIANTS Emit Inv_C14_in Inv_C15r Inv_C12r\nCHECK_DEADLOCK FALSE\n" % rx)
    cmd = "timeout %d %s -workers 1 -seed %d -simulate num=%d -depth %d -metadir %s/meta -cleanup -noGenerateSpecTE -config sim.cfg MC_reader.tla" % (
        timeout, replay.TLC, seed, num, depth, workdir)
    r = subprocess.run(cmd, shell=True, cwd=workdir, capture_output=True, text=True)
    out, seen = [], set()
    for line in r.stdout.splitlines():
        m = re.match(r'^"@H (\d+) (.*)"$', line.strip())
        if m:
            body = m.group(2).encode().decode("unicode_escape")
            if body not in seen:
                seen.add(body)
                out.append(json.loads(body))
    subprocess.run(["rm", "-rf", os.path.join(workdir, "meta")])
    return out


def to_scenario(beh, rx, name):
    steps = [{"e": "conn"}, {"e": "w", "acc": BIG}, {"e": "f", "r": "ok"}, {"e": "b", "bytes": [0x20, 3, 0, 0, 0]},
             {"e": "r", "got": BIG}, {"e": "r", "got": BIG}, {"e": "r", "got": BIG},
             {"e": "b", "bytes": beh["stream"]}]
    in_poll = False
    pos = 0
    for h in beh["hist"]:
        if not in_poll:
            steps.append({"e": "poll"})
            in_poll = True
        if h["a"] == "read":
            steps.append({"e": "r", "got": h["got"], "want": h["want"]})
            pos += h["got"]
        elif h["a"] == "deliver":
            first = beh["stream"][pos - h["len"]]
            frame = beh["stream"][pos - h["len"]:pos]
            # the reader frames a non-canonical remaining length; the decoder then rejects the packet and
            # the connection dies: the reader specification goes on, the client does not
            i = 1
            while frame[i] & 0x80:
                i += 1
            if i > 1 and frame[i] == 0:
                break
            if first >> 4 == 6:                          # PUBREL: the client answers PUBCOMP in the same call
                steps += [{"e": "w", "acc": BIG}, {"e": "f", "r": "ok"}]
            in_poll = False                              # the call returns (message, progress or error)
        else:
            in_poll = False
    cfg = {"rx": rx, "tx": 256, "client_id": replay.b("rd"), "ka": 0, "sei": 0, "name": name}
    return {"cfg": cfg, "steps": steps, "drain": False}


def run(seed, num, outdir, mqv, rx=12):
    behs = gen(seed, num, 80, os.path.join(outdir, "tlc"), rx)
    scen = os.path.join(outdir, "reader.ndjson")
    with open(scen, "w") as f:
        for i, bh in enumerate(behs):
            f.write(json.dumps(to_scenario(bh, rx, "reader-%d-%d" % (seed, i))) + "\n")
    trace = os.path.join(outdir, "reader.trace")
    r = subprocess.run([mqv, "run", scen, trace], capture_output=True, text=True)
    if r.returncode != 0:
        raise RuntimeError(r.stderr[-2000:])
    os.remove(scen)
    bad, i = [], -1
    for line in open(trace):
        if '"e":"cfg"' in line:
            i += 1
        elif '"e":"mismatch"' in line or '"e":"panic"' in line or '"e":"watchdog"' in line:
            bad.append((i, [json.loads(line).get("msg", json.loads(line)["e"])]))
    return trace, bad, len(behs), sum(len(b["hist"]) for b in behs)


if __name__ == "__main__":
    trace, bad, n, steps = run(int(sys.argv[1]), int(sys.argv[2]), sys.argv[3], sys.argv[4])
    for i, mm in bad[:8]:
        print("NONCONFORMANT", i, mm)
    print("behaviours=%d steps=%d nonconformant=%d" % (n, steps, len(bad)))
