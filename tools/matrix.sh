#!/bin/sh
# matrix.sh : every seeded change against the quick check of the property it was seeded for
cd /verif
for d in seeded/S-*; do
  id=$(basename $d); prop=$(python3 -c "import json;print(json.load(open('$d/meta.json'))['breaks'])")
  cd /repo && git apply /verif/$d/patch.diff || { echo "$id: patch does not apply"; cd /verif; continue; }
  cd /verif
  out=$(python3 tools/check.py $prop --tier quick 2>&1)
  v=$(echo "$out" | grep -c "^VIOLATION")
  d2=$(echo "$out" | grep -c "^DRIFT")
  why=$(echo "$out" | grep "^VIOLATION" | head -1 | sed 's/.*# //')
  echo "$id $prop violations=$v drift=$d2 :: $why"
  git -C /repo checkout -- .
done
(cd /verif/harness && cargo build --release --offline 2>&1 | grep -E "^error" | head -3)
