#!/bin/sh
# matrix.sh [ids...] : every seeded change against the quick check of the property it was seeded for.
# Works on $VERIF_REPO (default /repo): applies the patch there, runs the check, reverts.  Run it from the
# root of a /verif checkout whose harness depends on that repository (vp run --with-repo for an isolated copy).
REPO=${VERIF_REPO:-/repo}
V=$(pwd)
LIST=${*:-$(ls seeded | grep '^S-')}
for id in $LIST; do
  d=seeded/$id
  prop=$(python3 -c "import json;print(json.load(open('$d/meta.json'))['breaks'])")
  (cd $REPO && git apply $V/$d/patch.diff) || { echo "$id: patch does not apply"; continue; }
  out=$(VERIF_REPO=$REPO python3 tools/check.py $prop --tier quick 2>&1); rc=$?
  v=$(echo "$out" | grep -c "^VIOLATION")
  d2=$(echo "$out" | grep -c "^DRIFT")
  why=$(echo "$out" | grep "^VIOLATION" | sed 's/.*# //' | sort | uniq -c | sort -rn | head -2 | tr '\n' ';')
  echo "$id $prop exit=$rc violations=$v drift=$d2 :: $why"
  (cd $REPO && git checkout -- .)
done
(cd $V/harness && cargo build --release --offline 2>&1 | grep -E "^error" | head -3)
git -C $V checkout -- evidence 2>/dev/null
