#!/usr/bin/env python3
"""C08 vector generation: byte strings fed to the client at the CONNACK position and after CONNACK.

No verdicts are produced here: TLC decides each vector with spec/MqttCodec.tla when it validates
the recorded run (Observer monitors C08 / C11 / C14).  The sets are structural: every packet type x
flag nibble, every remaining-length form, per-type bodies with every truncation and one trailing
byte, PUBLISH flag/property combinations, invalid UTF-8 classes, oversize packets, and mutations
(bit flips, length +-1) of valid packets.  The thorough tier adds every two-byte prefix.
"""
import itertools
import json
import random


def varint(v):
    out = []
    while True:
        d = v % 128
        v //= 128
        out.append(d | (0x80 if v else 0))
        if not v:
            return out


def frame(first, body):
    return [first] + varint(len(body)) + list(body)


def lp(bs):
    return [len(bs) >> 8, len(bs) & 255] + list(bs)


def props(items):
    body = []
    for it in items:
        body += it
    return varint(len(body)) + body


USER = [0x26] + lp(b"k") + lp(b"v")
REASON = [0x1F] + lp(b"why")
RESP = [0x08] + lp(b"re/1")
CORR = [0x09] + lp(b"\x01\x02")
SUBID = [0x0B, 0x05]
CTYPE = [0x03] + lp(b"t/p")
ALIAS = [0x23, 0x00, 0x01]
PFI = [0x01, 0x01]
MEI = [0x02, 0, 0, 0, 9]


def valid_packets():
    """(name, bytes) of spec-valid server packets"""
    out = []
    for t, first in (("puback", 0x40), ("pubrec", 0x50), ("pubrel", 0x62), ("pubcomp", 0x70)):
        out.append((t + "-id", frame(first, [0, 7])))
        out.append((t + "-rc", frame(first, [0, 7, 0x00])))
        out.append((t + "-rc-fail", frame(first, [0, 7, 0x80])))
        out.append((t + "-props0", frame(first, [0, 7, 0x00] + props([]))))
        out.append((t + "-reason", frame(first, [0, 7, 0x10 if t != "pubrel" else 0x00] + props([REASON]))))
        out.append((t + "-user", frame(first, [0, 7, 0x00] + props([USER, USER]))))
    for t, first in (("suback", 0x90), ("unsuback", 0xB0)):
        out.append((t + "-1", frame(first, [0, 7] + props([]) + [0])))
        out.append((t + "-3", frame(first, [0, 7] + props([]) + [0, 1, 0x80])))
        out.append((t + "-props", frame(first, [0, 7] + props([REASON, USER]) + [2])))
    out.append(("pingresp", [0xD0, 0x00]))
    out.append(("disc-0", [0xE0, 0x00]))
    out.append(("disc-rc", [0xE0, 0x01, 0x8B]))
    out.append(("disc-props0", [0xE0, 0x02, 0x00, 0x00]))
    out.append(("disc-props", frame(0xE0, [0x81] + props([REASON, USER]))))
    for q, dup, rt in itertools.product(range(3), range(2), range(2)):
        if q == 0 and dup:
            continue
        for pname, ps in (("none", []), ("user", [USER]), ("rr", [RESP, CORR]), ("cr", [CORR, RESP]), ("subid", [SUBID]),
                          ("many", [PFI, MEI, CTYPE, USER, SUBID])):
            for pay in (b"", b"x", b"pay"):
                body = lp(b"a/b") + ([0, 9] if q else []) + props(ps) + list(pay)
                out.append(("publish-q%d-d%d-r%d-%s-%d" % (q, dup, rt, pname, len(pay)), frame(0x30 | dup << 3 | q << 1 | rt, body)))
    return out


def connacks():
    out = []
    for sp in (0, 1):
        for rc in (0x00, 0x80, 0x87, 0x8A, 0x8B, 0x9F):
            out.append(frame(0x20, [sp, rc] + props([])))
    RM = lambda v: [0x21, v >> 8, v & 255]
    MP = lambda v: [0x27, 0, 0, v >> 8, v & 255]
    out.append(frame(0x20, [0, 0] + props([RM(1)])))
    out.append(frame(0x20, [0, 0] + props([RM(0)])))
    out.append(frame(0x20, [1, 0] + props([RM(65535), MP(20), [0x24, 1], [0x13, 0, 5], [0x12] + lp(b"assigned"), USER])))
    out.append(frame(0x20, [0, 0] + props([[0x24, 3]])))
    out.append(frame(0x20, [0, 0] + props([[0x12] + lp(b"x" * 64)])))
    out.append(frame(0x20, [0, 0] + props([[0x12] + lp(b"x" * 65)])))
    out.append(frame(0x20, [2, 0] + props([])))
    out.append(frame(0x20, [0x80, 0] + props([])))
    out.append(frame(0x20, [0, 0]))
    out.append(frame(0x20, [0]))
    out.append(frame(0x20, []))
    out.append(frame(0x20, [0, 0, 0, 0xAA]))
    out.append(frame(0x20, [0, 0, 5, 0x21, 0, 1]))
    out.append(frame(0x21, [0, 0, 0]))
    return out


def structural(rx):
    vs = []
    # every type x flags with tiny bodies
    for b0 in range(256):
        for rl in (0, 1, 2, 3, 4, 6):
            vs.append([b0] + varint(rl) + [0] * rl)
            if rl >= 2:
                vs.append([b0] + varint(rl) + [0, 7] + [0] * (rl - 2))
    # remaining-length forms on PINGRESP / PUBACK / PUBLISH
    for b0 in (0xD0, 0x40, 0x30, 0x20):
        vs += [[b0, 0x80, 0x00], [b0, 0x80, 0x80, 0x00], [b0, 0x80, 0x80, 0x80, 0x00], [b0, 0xFF, 0xFF, 0xFF, 0xFF, 0x01],
               [b0, 0x80, 0x80, 0x80, 0x80, 0x00], [b0, 0xFF, 0xFF, 0xFF, 0x7F], [b0, 0x80, 0x01], [b0, 0xFF, 0x7F],
               [b0, 0x80, 0x80, 0x01], [b0, 0x81, 0x00]]
        for n in (rx - 3, rx - 2, rx - 1, rx, rx + 1, 127, 128):
            if n > 0:
                vs.append([b0] + varint(n))                                  # header only: would it fit?
    # complete packets whose remaining length is written in a non-minimal form with a NON-ZERO value
    # (`82 00` for 2, `82 80 00`): the length resolves, the body arrives, and only the canonicality rule
    # stands between the packet and the application
    for name, pkt in valid_packets():
        if 0 < pkt[1] < 128:
            vs.append([pkt[0], pkt[1] | 0x80, 0x00] + pkt[2:])
            vs.append([pkt[0], pkt[1] | 0x80, 0x80, 0x00] + pkt[2:])
    # the same for the property-block length of a PUBLISH and for a Subscription Identifier value
    vs.append(frame(0x30, lp(b"a") + [0x80, 0x00] + [1, 2]))
    vs.append(frame(0x30, lp(b"a") + [0x82, 0x00, 0x01, 0x01] + [1, 2]))
    vs.append(frame(0x32, lp(b"a") + [0, 9] + [0x83, 0x00, 0x0B, 0x85, 0x00] + [1]))
    vs.append(frame(0x32, lp(b"a") + [0, 9] + [0x02, 0x0B, 0x05] + [1]))          # canonical control
    # canonical Subscription Identifier values at and around the variable-byte-integer boundaries, among them
    # those with an all-zero 7-bit group in the middle (`80 80 01`, `81 80 01`, `80 80 80 01`): valid, to be
    # surfaced with exactly that value (S-C04-h rejected them as "overlong")
    for v in (1, 127, 128, 129, 16383, 16384, 16385, 16511, 32768, 2097151, 2097152, 2097153, 4194304, 268435455):
        sid = [0x0B] + varint(v)
        vs.append(frame(0x32, lp(b"a") + [0, 9] + varint(len(sid)) + sid + [1]))
        vs.append(frame(0x30, lp(b"a") + varint(len(sid) + len(USER)) + USER + sid + [2]))
    # per-type bodies: valid, every truncation (declared length kept -> incomplete; adjusted -> fields
    # run past the packet), one trailing byte
    for name, pkt in valid_packets():
        vs.append(pkt)
        hdr = 2
        body = pkt[hdr:]
        if len(pkt) < 128:
            for cut in range(len(body)):
                vs.append([pkt[0], cut] + body[:cut])
            vs.append([pkt[0], len(body) + 1] + body + [0xAA])
            vs.append([pkt[0], len(body) + 1] + body)                       # one byte short: incomplete
    # invalid UTF-8 classes in a PUBLISH topic
    for bad in (b"\xc0\x80", b"\xed\xa0\x80", b"\xf5\x80\x80\x80", b"\x80", b"\xe2\x82", b"a\xffb", b"\xf4\x90\x80\x80", b"\xe0\x80\x80"):
        vs.append(frame(0x30, lp(bad) + props([]) + [1]))
    vs.append(frame(0x30, lp(b"ok\x00") + props([]) + [1]))
    # oversize for the receive buffer
    vs.append(frame(0x30, lp(b"a") + props([]) + [0] * rx))
    vs.append(frame(0x30, lp(b"a") + props([]) + [0] * (rx - 6)))
    vs.append(frame(0x30, lp(b"a") + props([]) + [0] * (rx - 5)))
    return vs


def mutations(rnd, count):
    vs = []
    base = [p for _, p in valid_packets()]
    for _ in range(count):
        p = list(rnd.choice(base))
        k = rnd.randrange(5)
        if k == 0:
            i = rnd.randrange(min(len(p), 6))
            p[i] ^= 1 << rnd.randrange(8)
        elif k == 1 and len(p) > 2:
            p[1] = (p[1] + rnd.choice((-1, 1))) % 128
        elif k == 2:
            i = rnd.randrange(len(p))
            p[i] = rnd.randrange(256)
        elif k == 3:
            i = rnd.randrange(len(p) + 1)
            p.insert(i, rnd.randrange(256))
            p[1] = (p[1] + 1) % 128
        else:
            if len(p) > 3:
                del p[rnd.randrange(2, len(p))]
                p[1] = (p[1] - 1) % 128
        vs.append(p)
    return vs


def generate(tier, seed, rx):
    rnd = random.Random(seed)
    out = []
    seen = set()

    def add(bytes_, pos, chunk=0, sizes=()):
        key = (tuple(bytes_), pos, chunk, tuple(sizes))
        if key in seen or not bytes_:
            return
        seen.add(key)
        out.append({"bytes": bytes_, "pos": pos, "chunk": chunk, "sizes": list(sizes)})

    for v in structural(rx):
        add(v, "poll")
    for v in connacks():
        add(v, "conn")
        add(v, "conn", 1)
        add(v, "poll")
    for name, p in valid_packets():
        add(p, "poll", 1)
        add(p, "poll", 3)
    # coalesced packets: a two-byte packet (PINGRESP) in front of / between others, with the first reads
    # cut inside it and the rest delivered as asked for -- a reader that asks for too much eats into
    # the next packet
    ping = [0xD0, 0x00]
    vp = [p for _, p in valid_packets() if p[0] >> 4 not in (2, 14)]
    for p in vp:
        for sizes in ((1,), (1, 1), (2,), (1, 2), (3,), (1, 1, 1), (2, 1)):
            add(ping + p, "poll", 0, sizes)
    for p in rnd.sample(vp, min(len(vp), 12)):
        q = rnd.choice(vp)
        for sizes in ((1,), (len(p) + 1,), (len(p), 1), (1, len(p) - 1 if len(p) > 1 else 1, 1)):
            add(p + ping + q, "poll", 0, sizes)
            add(ping + ping + p, "poll", 0, sizes)
    for v in rnd.sample(structural(rx), 150):
        add(v, "conn")
    for v in mutations(rnd, 600 if tier == "quick" else 20000):
        add(v, "poll", rnd.choice((0, 0, 1, 2)))
    if tier == "thorough":
        for b0 in range(256):
            for b1 in range(256):
                add([b0, b1] + [0, 7, 0, 0, 0][:min(b1, 5)] if b1 < 128 else [b0, b1, 0], "poll")
    return out


if __name__ == "__main__":
    import sys
    vs = generate(sys.argv[1], int(sys.argv[2]), int(sys.argv[3]))
    with open(sys.argv[4], "w") as f:
        for v in vs:
            f.write(json.dumps(v) + "\n")
    print(len(vs), "vectors")
