#!/usr/bin/env python3
"""Behaviours of spec/Timers.tla (keep-alive automaton) replayed against the real crate: the
script advances the virtual clock exactly as the behaviour says, lets PINGRESPs arrive when it
says, and the client's next_ping / ping_timeout deadlines and results are compared with the
specification's at every return."""
import json
import os
import re
import subprocess
import sys

sys.path.insert(0, os.path.dirname(os.path.abspath(__file__)))
import replay  # noqa: E402

SPEC = replay.SPEC
BIG = replay.BIG
PINGRESP = [0xD0, 0x00]
OTHER = [0x40, 0x02, 0x03, 0xE7]          # a stale PUBACK: handled silently


def gen(K, unit, maxt, seed, num, depth, workdir, timeout=300):
    os.makedirs(workdir, exist_ok=True)
    for f in ("Timers.tla", "MC_timesim.tla"):
        subprocess.run(["cp", os.path.join(SPEC, f), workdir], check=True)
    open(os.path.join(workdir, "sim.cfg"), "w").write(
        "SPECIFICATION Spec\nCONSTANTS\n  K = %d\n  Ks = {%s}\n  MaxConn = 3\n  UNIT = %d\n  MaxT = %d\n  Dev = {}\n  Record = TRUE\n"
        "INVARIANTS Emit Inv_C10 Inv_C10_timer Inv_C10_detect Inv_C10_zero Inv_C10_queue\nACTION_CONSTRAINT SimDrop SimPace\nCHECK_DEADLOCK FALSE\n" % (
            K, ", ".join(str(x) for x in sorted({0, K, 3000, 12000})), unit, maxt))
    cmd = "timeout %d %s -workers 1 -seed %d -simulate num=%d -depth %d -metadir %s/meta -cleanup -noGenerateSpecTE -config sim.cfg MC_timesim.tla" % (
        timeout, replay.TLC, seed, num, depth, workdir)
    r = subprocess.run(cmd, shell=True, cwd=workdir, capture_output=True, text=True)
    best, viol = {}, None
    for line in r.stdout.splitlines():
        m = re.match(r'^"@H (\d+) (.*)"$', line.strip())
        if m:
            t = int(m.group(1))
            h = json.loads(m.group(2).encode().decode("unicode_escape"))
            if t not in best or len(h) > len(best[t]):
                best[t] = h
        elif "is violated" in line:
            viol = line
    subprocess.run(["rm", "-rf", os.path.join(workdir, "meta")])
    return [best[k] for k in sorted(best)], viol


def to_scenario(hist, K, name):
    steps = [{"e": "conn"}, {"e": "w", "acc": BIG}, {"e": "f", "r": "ok"}, {"e": "b", "bytes": [0x20, 3, 0, 0, 0]},
             {"e": "r", "got": BIG}, {"e": "r", "got": BIG}, {"e": "r", "got": BIG}]
    expect = []          # (model entry) per expected return, in order
    susp = False
    serial = 0
    held = True          # the script holds a connection handle (dead or alive)
    for idx, h in enumerate(hist):
        a = h["a"]
        nxt = hist[idx + 1]["a"] if idx + 1 < len(hist) else ""
        if a == "yield":
            if not susp:
                steps.append({"e": "poll"})
            steps.append({"e": "rpend"})
            susp = True
        elif a == "adv":
            steps.append({"e": "adv", "to": h["p"]})
            # the executor polls the suspended client after the clock moved -- unless a packet arrives
            # at that very instant (then it is polled once, with the data already there)
            if susp and nxt != "b":
                steps.append({"e": "rpend"})
        elif a == "b":
            steps.append({"e": "b", "bytes": PINGRESP if h["p"] == "PINGRESP" else OTHER})
        elif a == "read":
            if not susp:
                steps.append({"e": "poll"})
            pkt, did = h["p"]
            steps += [{"e": "r", "got": BIG}] * replay.reads_for(PINGRESP if pkt == "PINGRESP" else OTHER)
            if did == "ping":          # the same call goes round its loop once more: PINGREQ now due
                steps += [{"e": "w", "acc": BIG}, {"e": "f", "r": "ok"}]
            susp = False
            expect.append(dict(h, a="timeout" if did == "timeout" else "read"))
        elif a == "ping":
            if not susp:
                steps.append({"e": "poll"})
            steps += [{"e": "w", "acc": BIG}, {"e": "f", "r": "ok"}]
            susp = False
            expect.append(h)
        elif a == "timeout":
            if not susp:
                steps.append({"e": "poll"})
            susp = False
            expect.append(h)
        elif a == "q0zero":
            if susp:
                steps.append({"e": "cancel"})
                expect.append({"a": "cancel"})
            serial += 1
            steps += [{"e": "publish", "qos": 0, "topic": replay.b("q/%d" % serial), "payload": replay.b("x")}, {"e": "wzero"}]
            susp = False
            expect.append(h)
        elif a == "stall":
            # the PINGREQ is due, the transport does not take it, the application drops the poll
            if not susp:
                steps.append({"e": "poll"})
            steps += [{"e": "wpend"}, {"e": "cancel"}]
            susp = False
            expect.append({"a": "cancel"})
        elif a == "drop":
            if susp:
                steps.append({"e": "cancel"})
                expect.append({"a": "cancel"})
            steps.append({"e": "drop"})
            susp = False
            held = False
        elif a == "conn":
            ska = h["p"] // 1000
            if held:             # the previous connection ended by a keep-alive timeout: the dead handle goes first
                steps.append({"e": "drop"})
            held = True
            steps += [{"e": "conn"}, {"e": "w", "acc": BIG}, {"e": "f", "r": "ok"},
                      {"e": "b", "bytes": [0x20, 6, 1, 0, 3, 0x13, ska >> 8, ska & 255]},
                      {"e": "r", "got": BIG}, {"e": "r", "got": BIG}, {"e": "r", "got": BIG}]
            susp = False
        elif a == "q0":
            if susp:
                steps.append({"e": "cancel"})
                expect.append({"a": "cancel"})
            serial += 1
            steps += [{"e": "publish", "qos": 0, "topic": replay.b("q/%d" % serial), "payload": replay.b("x")},
                      {"e": "w", "acc": BIG}, {"e": "f", "r": "ok"}]
            susp = False
            expect.append(h)
    cfg = {"rx": 64, "tx": 256, "client_id": replay.b("tm"), "ka": K // 1000, "sei": 300, "name": name}
    return {"cfg": cfg, "steps": steps, "drain": False}, expect


def compare(expect, lines):
    events = []
    for ln, line in enumerate(lines, 1):
        e = json.loads(line)
        if e["e"] in ("ret", "cancel") and not (e["e"] == "ret" and e["op"] == "conn"):
            events.append((ln, e))
        if e["e"] in ("mismatch", "departed"):
            return ["line %d: script/I-O mismatch: %s" % (ln, e["msg"])]
        if e["e"] in ("panic", "watchdog"):
            return ["line %d: %s" % (ln, e["e"])]
    out = []
    for (ln, e), h in zip(events, expect):
        if h["a"] == "cancel":
            if e["e"] != "cancel":
                out.append("line %d: expected the pending poll to be cancelled, got %s" % (ln, e["e"]))
            continue
        if e["e"] != "ret":
            out.append("line %d: expected a return after %s, got %s" % (ln, h["a"], e["e"]))
            break
        want_err = h["a"] in ("timeout", "q0zero")
        if (e["r"]["k"] == "err") != want_err:
            out.append("line %d (%s): result %s:%s" % (ln, h["a"], e["r"]["k"], e["r"]["v"]))
        snap = e["snap"]
        if (snap["np"], snap["pt"], e["obs"]["live"]) != (h["np"], h["pt"], h["live"]):
            out.append("line %d (%s): next_ping/ping_timeout/live = %s, specification %s" % (
                ln, h["a"], (snap["np"], snap["pt"], e["obs"]["live"]), (h["np"], h["pt"], h["live"])))
        if out:
            break
    if len(events) < len(expect) and not out:
        out.append("the run has %d returns, the behaviour %d" % (len(events), len(expect)))
    return out


def run(Ks, seed, num, depth, outdir, mqv):
    os.makedirs(outdir, exist_ok=True)
    all_expect, scen_path = [], os.path.join(outdir, "timesim.ndjson")
    total = 0
    with open(scen_path, "w") as f:
        for K in Ks:
            unit = 250 if K < 10000 else (1000 if K < 60000 else 5000)
            maxt = K * 3 + 7000 if K < 60000 else 200000
            hists, viol = gen(K, unit, maxt, seed, num, depth, os.path.join(outdir, "tlc"))
            if viol:
                raise RuntimeError("the keep-alive specification violates its own invariant: " + viol)
            for i, h in enumerate(hists):
                sc, expect = to_scenario(h, K, "timesim-K%d-%d-%d" % (K, seed, i))
                f.write(json.dumps(sc) + "\n")
                all_expect.append(expect)
                total += len(h)
    trace = os.path.join(outdir, "timesim.trace")
    r = subprocess.run([mqv, "run", scen_path, trace], capture_output=True, text=True)
    if r.returncode != 0:
        raise RuntimeError(r.stderr[-2000:])
    os.remove(scen_path)
    runs, cur = [], []
    for line in open(trace):
        if '"e":"cfg"' in line and cur:
            runs.append(cur)
            cur = []
        cur.append(line)
    runs.append(cur)
    bad = []
    for i, (exp, lines) in enumerate(zip(all_expect, runs)):
        mm = compare(exp, lines)
        if mm:
            bad.append((i, mm))
    return trace, bad, len(all_expect), total


if __name__ == "__main__":
    trace, bad, n, steps = run([int(x) for x in sys.argv[1].split(",")], int(sys.argv[2]), int(sys.argv[3]), 60, sys.argv[4], sys.argv[5])
    for i, mm in bad[:8]:
        print("NONCONFORMANT", i, mm[:2])
    print("behaviours=%d steps=%d nonconformant=%d" % (n, steps, len(bad)))
