#!/usr/bin/env python3
"""check.py <property> [--tier quick|thorough] [--seed N] [--replay FILE]

Decides one property of /verif/properties.jsonl for the CURRENT /repo working tree:
  1. rebuilds the harness (path dependency on /repo, hooks on) if any source changed,
  2. model-checks the TLA+ specification configurations that concern the property (TLC),
  3. produces the execution corpus of the property with the harness (random histories,
     TLC-generated behaviours replayed, property-specific schedules, finding witnesses),
  4. validates every recorded trace with TLC against spec/Observer.tla (property monitors
     over the observable history) and spec/MinimqTrace.tla (conformance with the client model),
  5. attributes the results, writes evidence/<property>.json, prints VIOLATION / KNOWN-FINDING
     lines.  Exit 0: held on everything explored; 1: violation; 2: tool error.
"""
import argparse
import hashlib
import json
import os
import re
import shutil
import subprocess
import sys
import time
from concurrent.futures import ThreadPoolExecutor

ROOT = os.path.dirname(os.path.dirname(os.path.abspath(__file__)))
REPO = os.environ.get("VERIF_REPO", "/repo")
CACHE = os.path.join(ROOT, ".cache")
SPEC = os.path.join(ROOT, "spec")
HARNESS = os.path.join(ROOT, "harness")
MQV = os.path.join(HARNESS, "target", "release", "mqv")
ALL_PROPS = ["C%02d" % i for i in range(1, 21)]

sys.path.insert(0, os.path.join(ROOT, "tools"))
import corpus as corpus_mod  # noqa: E402
import modelcheck  # noqa: E402


def sh(cmd, **kw):
    return subprocess.run(cmd, shell=isinstance(cmd, str), capture_output=True, text=True, **kw)


def tree_hash(paths, exts):
    h = hashlib.sha256()
    for base in paths:
        for dirpath, dirnames, filenames in os.walk(base):
            dirnames[:] = sorted(d for d in dirnames if d not in ("target", ".git", "states", ".cache", "work"))
            for f in sorted(filenames):
                if exts and not f.endswith(exts):
                    continue
                p = os.path.join(dirpath, f)
                h.update(p.encode())
                with open(p, "rb") as fh:
                    h.update(fh.read())
    return h.hexdigest()[:16]


def die(msg):
    print("TOOL-ERROR:", msg)
    sys.exit(2)


def build_harness():
    lock_src = os.path.join(REPO, "Cargo.lock")
    lock_dst = os.path.join(HARNESS, "Cargo.lock")
    if not os.path.exists(lock_dst):
        shutil.copy(lock_src, lock_dst)
    env = dict(os.environ, CARGO_NET_OFFLINE="true")
    r = sh("cargo build --release --offline", cwd=HARNESS, env=env)
    if r.returncode != 0:
        # a stale lockfile (dependency versions changed in /repo): refresh once
        shutil.copy(lock_src, lock_dst)
        r = sh("cargo build --release --offline", cwd=HARNESS, env=env)
    if r.returncode != 0:
        die("harness build failed:\n" + r.stderr[-3000:])


def open_findings():
    kf = json.load(open(os.path.join(ROOT, "known_findings.json")))
    return [f for f in kf["findings"] if f["status"] == "open"], kf["findings"]


def write_observer_cfg(path, open_ids):
    names = ", ".join('"%s"' % i for i in sorted(open_ids))
    with open(path, "w") as f:
        f.write("SPECIFICATION Spec\nCONSTANT OpenKF = {%s}\nINVARIANT Report\nINVARIANT Done\nCHECK_DEADLOCK FALSE\n" % names)


TLC_JAR = "/opt/veriftools/tla/tla2tools.jar"
CM_JAR = "/opt/veriftools/tla/CommunityModules-deps.jar"


def tlc_cmd(extra_java=""):
    return ("java -Xss1g -Xmx3g -XX:+UseParallelGC %s -cp %s:%s tlc2.TLC" % (extra_java, TLC_JAR, CM_JAR))


def run_observer(trace_path, workdir, open_ids, timeout=1800):
    """Validate one trace file with TLC; returns dict(viol=[], kf=[], stat=[], states=int, ok=bool)."""
    os.makedirs(workdir, exist_ok=True)
    for f in ("Observer.tla", "MqttCodec.tla"):
        shutil.copy(os.path.join(SPEC, f), workdir)
    write_observer_cfg(os.path.join(workdir, "Observer.cfg"), open_ids)
    env = dict(os.environ, TRACE=trace_path)
    cmd = "timeout %d %s -workers 1 -metadir %s/meta -cleanup -noGenerateSpecTE -config Observer.cfg Observer.tla" % (
        timeout, tlc_cmd(), workdir)
    r = sh(cmd, cwd=workdir, env=env)
    out = {"viol": [], "kf": [], "stat": [], "states": 0, "ok": False, "raw": ""}
    for line in r.stdout.splitlines():
        line = line.strip()
        m = re.match(r'^"@(VIOL|KF|STAT|DONE) (.*)"$', line)
        if m:
            kind, body = m.group(1), m.group(2).encode().decode("unicode_escape")
            if kind == "DONE":
                out["ok"] = True
            else:
                out[kind.lower()].append(json.loads(body))
            continue
        m = re.match(r"^(\d+) states generated, (\d+) distinct states found", line)
        if m:
            out["states"] = int(m.group(2))
    if not out["ok"]:
        out["raw"] = (r.stdout[-4000:] + r.stderr[-2000:])
    shutil.rmtree(os.path.join(workdir, "meta"), ignore_errors=True)
    return out


def split_runs(trace_path):
    """Yield (start_line_1based, [lines]) per run of a trace file."""
    run, start = [], 1
    with open(trace_path) as f:
        for i, line in enumerate(f, 1):
            if '"e":"cfg"' in line and run:
                yield start, run
                run, start = [], i
            run.append(line.rstrip("\n"))
    if run:
        yield start, run


def trace_to_scenario(lines):
    """Turn one recorded run back into a replayable script."""
    U32 = {0x02, 0x11, 0x18, 0x27}

    def props(ps):
        out = []
        for p in ps:
            if p["id"] in U32:
                out.append({"id": p["id"], "n": int.from_bytes(bytes(p["s"]), "big")})
            else:
                out.append({"id": p["id"], "n": p["n"], "s": p["s"], "t": p["t"]})
        return out

    cfg, steps = None, []
    for line in lines:
        e = json.loads(line)
        k = e["e"]
        if k == "cfg":
            c = e["cfg"]
            cfg = {"name": c["name"], "rx": c["rx"], "tx": c["tx"], "client_id": c["client_id"], "ka": c["ka"],
                   "sei": int.from_bytes(bytes(c["sei"]), "big"), "downgrade": c["downgrade"],
                   "first_id": c.get("first_id", 0)}
            if c["haswill"]:
                w = c["will"]
                cfg["will"] = {"topic": w["topic"], "payload": w["payload"], "qos": w["qos"],
                               "retain": bool(w["retain"]), "props": props(w["props"])}
            if c["hasauth"]:
                cfg["auth"] = {"user": c["user"], "pass": c["pass"]}
        elif k == "conn":
            steps.append({"e": "conn", "healthy": e.get("healthy", False)})
        elif k == "publish":
            s = {"e": "publish", "qos": e["qos"], "topic": e["topic"], "payload": e["payload"],
                 "retain": e["retain"], "props": props(e["props"]), "payload_fails": e["pfail"]}
            if e["hascorr"]:
                s["corr"] = e["corr"]
            steps.append(s)
        elif k == "subscribe":
            steps.append({"e": "subscribe", "props": props(e["props"]),
                          "filters": [{"topic": f["topic"], "qos": f["qos"], "nl": bool(f["nl"]),
                                       "rap": bool(f["rap"]), "rh": f["rh"]} for f in e["filters"]]})
        elif k == "unsubscribe":
            steps.append({"e": "unsubscribe", "props": props(e["props"]), "topics": e["topics"]})
        elif k in ("poll", "recv", "drive"):
            steps.append({"e": k})
        elif k == "disconnect":
            s = {"e": "disconnect"}
            if e["reason"] >= 0:
                s["reason"] = e["reason"]
            if e["hasprops"]:
                s["props"] = props(e["props"])
            steps.append(s)
        elif k == "w":
            steps.append({"e": "wzero"} if e["acc"] == 0 and e.get("len", 0) > 0 else {"e": "w", "acc": e["acc"]})
        elif k in ("wpend", "werr", "rpend", "reof", "rerr", "cancel"):
            steps.append({"e": k})
        elif k == "f":
            steps.append({"e": "f", "r": e["r"]})
        elif k == "r":
            steps.append({"e": "r", "got": e["got"]})
        elif k == "adv":
            steps.append({"e": "adv", "to": e["to"]})
        elif k == "b":
            steps.append({"e": "b", "bytes": e["bytes"]})
        elif k == "drop":
            steps.append({"e": "drop"})
        elif k == "setid":
            steps.append({"e": "setid", "id": e["id"]})
    return {"cfg": cfg, "steps": steps}


def chunk_files(trace_files, outdir, target_events=6000):
    """Re-pack runs into chunk files of roughly target_events lines; returns [(chunk_path, index)] where
    index maps chunk line ranges to (source file, source start line)."""
    os.makedirs(outdir, exist_ok=True)
    chunks, cur, cur_index, n = [], [], [], 0
    for tf in trace_files:
        for start, run in split_runs(tf):
            # a twin pair (base run, variant run + "twin" marker) must stay in one chunk
            pair_tail = '-variant"' in run[0] or '-aged"' in run[0]
            if n and n + len(run) > target_events and not pair_tail:
                chunks.append((cur, cur_index))
                cur, cur_index, n = [], [], 0
            cur_index.append((n + 1, n + len(run), tf, start))
            cur.extend(run)
            n += len(run)
    if cur:
        chunks.append((cur, cur_index))
    out = []
    for i, (lines, index) in enumerate(chunks):
        p = os.path.join(outdir, "chunk%03d.ndjson" % i)
        with open(p, "w") as f:
            f.write("\n".join(lines) + "\n")
        out.append((p, index, lines))
    return out


def validate_traces(trace_files, key, open_ids, jobs=8):
    """Observer pass over all traces (parallel JVMs); cached by key."""
    cache_file = os.path.join(CACHE, "obs", key + ".json")
    if os.path.exists(cache_file):
        return json.load(open(cache_file))
    work = os.path.join(CACHE, "tlc", key)
    shutil.rmtree(work, ignore_errors=True)
    chunks = chunk_files(trace_files, os.path.join(work, "chunks"))
    results = {"viol": [], "kf": [], "stat": [], "states": 0, "runs": 0, "events": 0, "errors": []}

    def one(i):
        path, index, lines = chunks[i]
        return i, run_observer(path, os.path.join(work, "j%03d" % i), open_ids)

    with ThreadPoolExecutor(max_workers=jobs) as ex:
        for i, res in ex.map(one, range(len(chunks))):
            path, index, lines = chunks[i]
            results["states"] += res["states"]
            results["events"] += len(lines)
            results["runs"] += len(index)
            if not res["ok"]:
                results["errors"].append({"chunk": path, "raw": res["raw"][-1500:]})
            for kind in ("viol", "kf"):
                for v in res[kind]:
                    # locate the run
                    for (a, b, tf, start) in index:
                        if a <= v["l"] <= b:
                            v = dict(v, src=tf, src_start=start, run_line=v["l"] - a + 1, run=[a, b], chunk=path)
                            break
                    results[kind].append(v)
            results["stat"].extend(res["stat"])
    os.makedirs(os.path.dirname(cache_file), exist_ok=True)
    json.dump(results, open(cache_file, "w"))
    return results


def make_replay(prop, v):
    """Write a replay file (script + what failed) for a violation record located in a chunk."""
    lines = open(v["chunk"]).read().splitlines()[v["run"][0] - 1:v["run"][1]]
    scen = trace_to_scenario(lines)
    rid = hashlib.sha256((prop + json.dumps(scen, sort_keys=True) + v["why"]).encode()).hexdigest()[:12]
    d = os.path.join(ROOT, "replays")
    os.makedirs(d, exist_ok=True)
    p = os.path.join(d, "%s-%s.json" % (prop, rid))
    json.dump({"property": v["p"], "claimed_by": prop, "why": v["why"], "event_line_in_run": v.get("run_line"),
               "scenario": scen, "trace_excerpt": lines[max(0, v.get("run_line", 1) - 12):v.get("run_line", 1) + 2]},
              open(p, "w"))
    return p


def run_harness_scripts(scen_path, out_path):
    r = sh([MQV, "run", scen_path, out_path])
    if r.returncode != 0:
        die("harness run failed: " + r.stderr[-2000:])
    return r.stderr.strip()


def main():
    ap = argparse.ArgumentParser()
    ap.add_argument("prop")
    ap.add_argument("--tier", default=os.environ.get("VERIF_TIER", "quick"))
    ap.add_argument("--seed", type=int, default=int(os.environ.get("VERIF_SEED", "1")))
    ap.add_argument("--replay")
    ap.add_argument("--jobs", type=int, default=int(os.environ.get("VERIF_JOBS", "12")))
    args = ap.parse_args()
    prop = args.prop
    if prop not in ALL_PROPS:
        die("unknown property " + prop)
    t0 = time.time()
    os.makedirs(CACHE, exist_ok=True)
    build_harness()
    open_f, all_f = open_findings()
    open_ids = [f["id"] for f in open_f]

    if args.replay:
        rp = json.load(open(args.replay))
        work = os.path.join(CACHE, "replay")
        os.makedirs(work, exist_ok=True)
        sp = os.path.join(work, "scen.ndjson")
        open(sp, "w").write(json.dumps(rp["scenario"]) + "\n")
        tp = os.path.join(work, "trace.ndjson")
        print(run_harness_scripts(sp, tp))
        res = run_observer(tp, os.path.join(work, "tlc"), open_ids)
        hit = [v for v in res["viol"] if v["p"] in (prop, "PANIC")]
        for v in res["viol"]:
            print("  monitor:", v)
        if hit:
            print("VIOLATION property=%s replay=%s" % (prop, args.replay))
            sys.exit(1)
        print("replay: property %s holds on this schedule now" % prop)
        sys.exit(0)

    repo_h = tree_hash([os.path.join(REPO, "src"), ], (".rs",)) + tree_hash([REPO], ("Cargo.toml",))[:4]
    mach_h = tree_hash([SPEC, os.path.join(HARNESS, "src"), os.path.join(ROOT, "tools"), os.path.join(ROOT, "witness")],
                       (".tla", ".rs", ".py", ".json", ".cfg"))
    kf_h = hashlib.sha256(json.dumps(all_f, sort_keys=True).encode()).hexdigest()[:8]

    # ---- model checking (independent of /repo) ------------------------------------------
    mc = modelcheck.run_for(prop, args.tier, CACHE, mach_h, jobs=args.jobs)

    # ---- corpus + trace validation ---------------------------------------------------------
    groups = corpus_mod.groups_for(prop, args.tier)
    viol, kfs, stats = [], [], []
    states = runs = events = 0
    errors = []
    samples = []
    drift = []
    for g in groups:
        gkey = "%s-%s-%s-%s-%s-%d" % (g, args.tier, repo_h, mach_h, kf_h, args.seed)
        gdir = os.path.join(CACHE, "corpus", gkey)
        done = os.path.join(gdir, "DONE")
        if not os.path.exists(done):
            shutil.rmtree(gdir, ignore_errors=True)
            os.makedirs(gdir)
            corpus_mod.generate(g, args.tier, args.seed, gdir, MQV, ROOT)
            open(done, "w").write("ok")
        traces = sorted(os.path.join(gdir, f) for f in os.listdir(gdir) if f.endswith(".trace"))
        res = validate_traces(traces, gkey, open_ids, jobs=args.jobs)
        viol += res["viol"]
        kfs += res["kf"]
        stats += res["stat"]
        states += res["states"]
        runs += res["runs"]
        events += res["events"]
        errors += res["errors"]
        meta_p = os.path.join(gdir, "meta.json")
        if os.path.exists(meta_p):
            meta = json.load(open(meta_p))
            errors += [{"harness": m} for m in meta.get("tool_errors", [])]
            samples += meta.get("samples", [])[:3]
            drift += meta.get("drift", [])
    if errors:
        print("TOOL-ERROR: trace validation did not complete:", json.dumps(errors)[:3000])
        sys.exit(2)

    mine = [v for v in viol if v["p"] == prop or v["p"] == "PANIC"]
    my_kf = [k for k in kfs if k["p"] == prop]
    evals = sum(s["n"].get(prop, 0) for s in stats)
    nontrivial_runs = sum(1 for s in stats if s["n"].get(prop, 0) > 0)

    exit_code = 0
    if mc.get("violations"):
        for cx in mc["violations"]:
            p = os.path.join(ROOT, "replays", "%s-model-%s.txt" % (prop, cx["cfg"]))
            os.makedirs(os.path.dirname(p), exist_ok=True)
            open(p, "w").write(cx["trace"])
            print("VIOLATION property=%s replay=%s" % (prop, p))
        exit_code = 1
    seen = set()
    for v in mine:
        key = (v["why"], v.get("src"), v.get("src_start"))
        if key in seen:
            continue
        seen.add(key)
        rp = make_replay(prop, v)
        print("VIOLATION property=%s replay=%s   # %s" % (prop, rp, v["why"]))
        exit_code = 1
        if len(seen) >= 5:
            break
    by_kf = {}
    for k in my_kf:
        by_kf.setdefault(k["kf"], []).append(k)
    for f in open_f:
        if prop in f["properties"]:
            n = len(by_kf.get(f["id"], []))
            print("KNOWN-FINDING: property=%s %s %s (observed %d time(s) in this run)" % (prop, f["id"], f["what"], n))

    for d in drift[:5]:
        print("DRIFT (specification and code disagree on the projected client state; not a verdict): %s" % json.dumps(d)[:400])
    if mc.get("tool_error"):
        print("TOOL-ERROR: model checking:", mc["tool_error"][:2000])
        sys.exit(2)
    if evals == 0 and not mc.get("states"):
        print("TOOL-ERROR: vacuous: the property's monitor was never exercised")
        sys.exit(2)

    ev = {
        "property_id": prop, "tier": args.tier, "seed": args.seed, "level": "model_checking",
        "coverage": {
            "states": int(mc.get("states", 0)) + states,
            "transitions": int(mc.get("transitions", 0)) + max(states - runs, 0),
            "traces_validated_against_impl": runs,
            "samples": (mc.get("samples", []) + samples)[:6] or ["(none)"],
            "evaluations": evals,
            "distinct_nontrivial": nontrivial_runs,
            "rule": "evaluations = times the property's monitor in spec/Observer.tla was evaluated with a true antecedent on a recorded "
                    "execution of the real crate; distinct_nontrivial = recorded runs (distinct seeds / schedules) in which that happened",
            "exhaustive": bool(mc.get("exhaustive", False)),
            "model": mc.get("detail", {}),
            "trace_events": events,
            "corpus_groups": groups,
            "known_finding_hits": {k: len(v) for k, v in by_kf.items()},
            "conformance_drift": drift[:10],
        },
        "assumptions": corpus_mod.ASSUMPTIONS,
        "wall_s": round(time.time() - t0, 2),
        "violations": len(seen) + len(mc.get("violations", [])),
    }
    os.makedirs(os.path.join(ROOT, "evidence"), exist_ok=True)
    json.dump(ev, open(os.path.join(ROOT, "evidence", prop + ".json"), "w"), indent=1)
    print("%s: %s  (model states=%s, traces=%d, events=%d, monitor evaluations=%d, %.1fs)" % (
        prop, "VIOLATED" if exit_code else "holds on everything explored", mc.get("states", 0), runs, events, evals,
        time.time() - t0))
    sys.exit(exit_code)


if __name__ == "__main__":
    main()
