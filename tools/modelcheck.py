"""Model checking of the TLA+ specification configurations per property (TLC).  Results are
independent of /repo and cached by the machinery hash."""
import json
import os

# property -> list of (config name, quick constants, thorough constants); filled in as the
# specification grows (see spec/MC_*.cfg)
PLAN = {}


def run_for(prop, tier, cache, mach_h, jobs=12):
    plan = PLAN.get(prop, [])
    if not plan:
        return {"states": 0, "transitions": 0, "samples": [], "detail": {}, "violations": []}
    raise NotImplementedError
