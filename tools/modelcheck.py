"""Model checking of the TLA+ specification configurations that concern a property (TLC).

The results depend only on the specification, not on /repo, and are cached by the hash of the
spec files.  A counterexample here is a statement about the DESIGN as modelled (spec/Minimq.tla is
the as-built behaviour): it is reported as a tool error, not as a verdict about the code -- verdicts
about the code come from executions of the real crate (trace validation).
"""
import hashlib
import json
import os
import re
import shutil
import subprocess
from concurrent.futures import ThreadPoolExecutor

ROOT = os.path.dirname(os.path.dirname(os.path.abspath(__file__)))
SPEC = os.path.join(ROOT, "spec")
TLC = ("java -Xss512m -Xmx%s -XX:+UseParallelGC -cp /opt/veriftools/tla/tla2tools.jar:"
       "/opt/veriftools/tla/CommunityModules-deps.jar tlc2.TLC")

# (module, config, workers, heap, timeout s)
FLOW_QUICK = [("MC_flow.tla", "MC_flow_out.cfg", 6, "6g", 600), ("MC_flow.tla", "MC_flow_wrap.cfg", 2, "2g", 300),
              ("MC_flow.tla", "MC_cover_q1.cfg", 2, "2g", 300), ("MC_flow.tla", "MC_cover_q2.cfg", 2, "2g", 300),
              ("MC_flow.tla", "MC_flow_mixq.cfg", 4, "4g", 600)]
FLOW_THOROUGH = FLOW_QUICK + [("MC_flow.tla", "MC_cover_q3.cfg", 4, "4g", 600), ("MC_flow.tla", "MC_flow_mix.cfg", 8, "8g", 1800),
                              ("MC_flow.tla", "MC_flow_in.cfg", 12, "12g", 3600), ("MC_flow.tla", "MC_cover_a.cfg", 8, "8g", 1800)]
FLOW_PROPS = ["C01", "C02", "C03", "C04", "C05", "C06", "C07", "C11", "C12", "C13", "C16", "C18"]
PLAN = {p: {"quick": FLOW_QUICK, "thorough": FLOW_THOROUGH} for p in FLOW_PROPS}
TIME_QUICK = [("Timers.tla", "MC_time_%d.cfg" % k, 2, "3g", 600) for k in (0, 1000, 2000, 3000, 5000, 10000, 11000, 60000)]
TIME_QUICK += [("Timers.tla", "MC_time_re_a.cfg", 2, "3g", 600), ("Timers.tla", "MC_time_re_b.cfg", 2, "3g", 600)]
TIME_THOROUGH = TIME_QUICK + [("Timers.tla", "MC_time_%d.cfg" % k, 4, "6g", 1800) for k in (6000, 9000)]
# filled in by the other specification modules as they are added
READER = [("MC_reader.tla", "MC_reader.cfg", 4, "3g", 600)]
CODEC = [("MC_codec.tla", "MC_codec.cfg", 1, "2g", 600)]
ARENA_QUICK = [("MC_arena.tla", "MC_arena.cfg", 4, "4g", 600)]
ARENA_THOROUGH = ARENA_QUICK + [("MC_arena.tla", "MC_arena_mid.cfg", 6, "8g", 1800), ("MC_arena.tla", "MC_arena_deep.cfg", 10, "16g", 7200)]
LIMITS = [("Limits.tla", "MC_limits.cfg", 4, "3g", 600)]
EXTRA = {"C10": {"quick": TIME_QUICK, "thorough": TIME_THOROUGH},
         "C15": {"quick": READER, "thorough": READER}, "C14": {"quick": READER + LIMITS, "thorough": READER + LIMITS},
         "C08": {"quick": READER + CODEC, "thorough": READER + CODEC}, "C12": {"quick": READER + LIMITS, "thorough": READER + LIMITS},
         "C04": {"quick": LIMITS, "thorough": LIMITS},
         "C09": {"quick": CODEC, "thorough": CODEC}, "C19": {"quick": CODEC, "thorough": CODEC},
         "C20": {"quick": CODEC, "thorough": CODEC}, "C17": {"quick": ARENA_QUICK, "thorough": ARENA_THOROUGH}}
PLAN["C01"] = {"quick": FLOW_QUICK + CODEC, "thorough": FLOW_THOROUGH + CODEC}


# Inductive invariants discharged by Apalache (unbounded in the integers): module -> obligations
# (init predicate, invariant, length).  Results depend only on the module; cached by its hash.
APALACHE = {"Quota.tla": [("Init", "IndInv", 0), ("IndInit", "IndInv", 1), ("IndInit", "Window", 0)]}
APALACHE_FOR = {"C06": ["Quota.tla"], "C12": ["Quota.tla"], "C17": ["Quota.tla"]}


def run_apalache(module, cache, timeout=900):
    key = "apalache-%s-%s" % (module, spec_hash([module]))
    cfile = os.path.join(cache, "mc", key + ".json")
    if os.path.exists(cfile):
        return json.load(open(cfile))
    work = os.path.join(cache, "mc", "work-" + key)
    shutil.rmtree(work, ignore_errors=True)
    os.makedirs(work)
    shutil.copy(os.path.join(SPEC, module), work)
    res = {"module": module, "obligations": [], "ok": True, "error": None}
    for init, inv, length in APALACHE[module]:
        cmd = "timeout %d apalache-mc check --cinit=ConstInit --init=%s --inv=%s --length=%d %s" % (timeout, init, inv, length, module)
        r = subprocess.run(cmd, shell=True, cwd=work, capture_output=True, text=True)
        ok = "EXITCODE: OK" in r.stdout and "Checker reports no error" in r.stdout
        res["obligations"].append({"init": init, "inv": inv, "length": length, "ok": ok})
        if not ok:
            res["ok"] = False
            res["error"] = "%s: %s => %s (length %d) not discharged\n%s" % (module, init, inv, length, r.stdout[-1500:])
    shutil.rmtree(work, ignore_errors=True)
    if res["ok"]:
        os.makedirs(os.path.dirname(cfile), exist_ok=True)
        json.dump(res, open(cfile, "w"))
    return res


def spec_hash(files):
    h = hashlib.sha256()
    for f in files:
        h.update(open(os.path.join(SPEC, f), "rb").read())
    return h.hexdigest()[:16]


def deps(module):
    """modules a model-checking module extends, transitively (by file name)"""
    seen, todo = [], [module]
    while todo:
        m = todo.pop()
        if m in seen or not os.path.exists(os.path.join(SPEC, m)):
            continue
        seen.append(m)
        txt = open(os.path.join(SPEC, m)).read()
        mm = re.search(r"EXTENDS([^\n]*(?:\n[ \t]+[^\n]*)*)", txt)
        if mm:
            todo += [x.strip() + ".tla" for x in mm.group(1).replace("\n", " ").split(",")]
        for inst in re.findall(r"INSTANCE\s+(\w+)", txt):
            todo.append(inst + ".tla")
    return seen


def run_one(module, cfg, workers, heap, timeout, cache):
    files = deps(module) + [cfg]
    key = "%s-%s-%s" % (module, cfg, spec_hash(files))
    cfile = os.path.join(cache, "mc", key + ".json")
    if os.path.exists(cfile):
        return json.load(open(cfile))
    work = os.path.join(cache, "mc", "work-" + key)
    shutil.rmtree(work, ignore_errors=True)
    os.makedirs(work)
    for f in files:
        shutil.copy(os.path.join(SPEC, f), work)
    cmd = "timeout %d %s -workers %d -metadir %s/meta -cleanup -noGenerateSpecTE -coverage 1 -config %s %s" % (
        timeout, TLC % heap, workers, work, cfg, module)
    r = subprocess.run(cmd, shell=True, cwd=work, capture_output=True, text=True)
    out = r.stdout
    res = {"cfg": cfg, "module": module, "generated": 0, "distinct": 0, "depth": 0, "violated": None, "trace": "",
           "complete": False, "error": None, "actions_never_taken": []}
    m = re.search(r"(\d+) states generated, (\d+) distinct states found, (\d+) states left on queue", out)
    if m:
        res["generated"], res["distinct"] = int(m.group(1)), int(m.group(2))
        res["complete"] = int(m.group(3)) == 0 and "Model checking completed" in out
        if module == "MC_codec.tla" and res["complete"]:
            # one state; the work is the evaluation of the lemmas over their enumerated domains
            res["generated"] = res["distinct"] = 1
    m = re.search(r"depth of the complete state graph search is (\d+)", out)
    if m:
        res["depth"] = int(m.group(1))
    m = re.search(r"Invariant (\w+) is violated", out)
    if m:
        res["violated"] = m.group(1)
        i = out.index("The behavior up to this point")
        res["trace"] = out[i:i + 20000]
    elif "Error:" in out:
        res["error"] = out[out.index("Error:"):][:3000]
    elif not m and not res["complete"]:
        res["error"] = "TLC did not finish (timeout %ds?)\n" % timeout + out[-1500:]
    # -coverage 1: actions that were never taken make the run vacuous for them
    for am in re.finditer(r"<(\w+) line \d+, col \d+ to line \d+, col \d+ of module (\w+)>: (\d+):(\d+)", out):
        if am.group(3) == "0" and am.group(4) == "0" and am.group(1) not in res["actions_never_taken"]:
            res["actions_never_taken"].append(am.group(1))
    shutil.rmtree(work, ignore_errors=True)
    if res["complete"] or res["violated"]:
        os.makedirs(os.path.dirname(cfile), exist_ok=True)
        json.dump(res, open(cfile, "w"))
    return res


def run_for(prop, tier, cache, mach_h, jobs=12):
    plan = PLAN.get(prop, {}).get(tier, []) + EXTRA.get(prop, {}).get(tier, [])
    out = {"states": 0, "transitions": 0, "samples": [], "detail": {}, "violations": [], "exhaustive": False}
    if not plan:
        return out
    par = max(1, jobs // max(w for (_, _, w, _, _) in plan))
    with ThreadPoolExecutor(max_workers=par) as ex:
        results = list(ex.map(lambda p: run_one(*p, cache), plan))
    complete = True
    for res in results:
        out["states"] += res["distinct"]
        out["transitions"] += res["generated"]
        out["detail"][res["cfg"]] = {k: res[k] for k in ("generated", "distinct", "depth", "complete", "violated", "actions_never_taken")}
        out["detail"][res["cfg"]]["actions_never_taken"] = list(dict.fromkeys(res["actions_never_taken"]))
        complete = complete and res["complete"]
        if res["error"]:
            out["tool_error"] = "%s: %s" % (res["cfg"], res["error"])
        if res["violated"]:
            out["tool_error"] = "%s: the specification itself violates %s (a modelling error or an unlisted deviation)\n%s" % (
                res["cfg"], res["violated"], res["trace"][:1500])
    for module in APALACHE_FOR.get(prop, []):
        a = run_apalache(module, cache)
        out["detail"]["apalache:" + module] = {"inductive_invariant": a["obligations"], "unbounded": True}
        if not a["ok"]:
            out["tool_error"] = "Apalache: " + (a["error"] or "")
    out["exhaustive"] = complete
    out["samples"] = [{"model": r["cfg"], "distinct_states": r["distinct"], "depth": r["depth"]} for r in results[:3]]
    return out
