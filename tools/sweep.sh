#!/bin/sh
# sweep.sh FROM TO [tier]: run every property's check for seeds FROM..TO on the current tree; print only alarms,
# tool errors and unexpected exit codes
TIER=${3:-quick}
for s in $(seq $1 $2); do
  for p in C01 C02 C03 C04 C05 C06 C07 C08 C09 C10 C11 C12 C13 C14 C15 C16 C17 C18 C19 C20; do
    out=$(python3 tools/check.py $p --seed $s --tier $TIER 2>&1); rc=$?
    echo "$out" | grep -E "VIOLATION|TOOL|VIOLATED|DRIFT" | sed "s/^/seed=$s /" | cut -c1-260
    [ $rc -ne 0 ] && echo "seed=$s $p exit=$rc: $(echo "$out" | tail -2 | cut -c1-300)"
  done
  echo "seed $s done"
done
