#!/bin/sh
# sweep.sh FROM TO : run every property's quick check for seeds FROM..TO on the current tree; print only alarms
for s in $(seq $1 $2); do
  for p in C01 C02 C03 C04 C05 C06 C07 C08 C09 C10 C11 C12 C13 C14 C15 C16 C17 C18 C19 C20; do
    python3 tools/check.py $p --seed $s 2>&1 | grep -E "VIOLATION|TOOL|VIOLATED|DRIFT" | sed "s/^/seed=$s /" | cut -c1-260
  done
  echo "seed $s done"
done
