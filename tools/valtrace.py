#!/usr/bin/env python3
"""valtrace.py TRACE... : validate recorded trace files with the Observer (chunked, parallel) and print
the verdict counts; development aid for corpora that are not part of a registered check."""
import collections, json, os, sys, time
sys.path.insert(0, os.path.dirname(os.path.abspath(__file__)))
import check
kf = json.load(open(os.path.join(check.ROOT, "known_findings.json")))
open_ids = [f["id"] for f in kf["findings"] if f["status"] == "open"]
key = "adhoc-%d" % int(time.time())
res = check.validate_traces([os.path.abspath(f) for f in sys.argv[1:]], key, open_ids, jobs=int(os.environ.get("VERIF_JOBS", "12")))
print("runs", res["runs"], "events", res["events"], "errors", len(res["errors"]))
for kind in ("viol", "kf"):
    c = collections.Counter((v["p"], v["why"][:90]) for v in res[kind])
    for k, n in c.most_common():
        print(kind.upper(), n, k)
for v in res["viol"][:6]:
    print("  at", v.get("src"), "run line", v.get("run_line"), "chunk", v.get("chunk"), v.get("run"))
if res["errors"]:
    print(res["errors"][0]["raw"][-1500:])
os.remove(os.path.join(check.CACHE, "obs", key + ".json"))
