#!/usr/bin/env python3
"""Behaviours of spec/Limits.tla (the broker's Maximum Packet Size: refusal of oversize requests, the flush that
stops at a stored packet the new limit no longer admits, acknowledgements that do not fit, inbound QoS 2 under
such a limit, reconnects with another limit) replayed against the real crate.

Every model action becomes API calls of a program (harness `program` command: a transport that takes
everything, a broker that acknowledges what it receives and resumes the session with the CONNACK properties
the behaviour says); the result of every call, the number of stored packets and the liveness of the handle
are compared with the specification's.  The recorded traces are also monitored by the Observer."""
import json
import os
import re
import subprocess
import sys

sys.path.insert(0, os.path.dirname(os.path.abspath(__file__)))
import replay  # noqa: E402

SPEC = replay.SPEC
NOLIMIT = 1000000
LENS = [9, 12, 20]
MAXES = [NOLIMIT, 3, 4, 5, 8, 9, 11, 12, 19, 20]


def gen(seed, num, depth, workdir, timeout=300):
    os.makedirs(workdir, exist_ok=True)
    for f in ("Limits.tla", "MC_limitsim.tla"):
        subprocess.run(["cp", os.path.join(SPEC, f), workdir], check=True)
    open(os.path.join(workdir, "sim.cfg"), "w").write(
        "SPECIFICATION Spec\nCONSTANTS\n  Lens = {%s}\n  Maxes = {%s}\n  InIds = {1, 2, 3}\n  MaxOps = 14\n  MaxConn = 4\n  Stalls = FALSE\n"
        "  Dev = {}\n  Record = TRUE\n"
        "INVARIANTS Emit Inv_C14_wire Inv_C14_stored Inv_C12_usable Inv_C04_recorded Inv_C04_once Inv_C04_delivered\n"
        "ACTION_CONSTRAINT SimDrop\nCHECK_DEADLOCK FALSE\n" % (", ".join(map(str, LENS)), ", ".join(map(str, MAXES))))
    cmd = "timeout %d %s -workers 1 -seed %d -simulate num=%d -depth %d -metadir %s/meta -cleanup -noGenerateSpecTE -config sim.cfg MC_limitsim.tla" % (
        timeout, replay.TLC, seed, num, depth, workdir)
    r = subprocess.run(cmd, shell=True, cwd=workdir, capture_output=True, text=True)
    best, viol = {}, None
    for line in r.stdout.splitlines():
        m = re.match(r'^"@H (\d+) (.*)"$', line.strip())
        if m:
            t = int(m.group(1))
            h = json.loads(m.group(2).encode().decode("unicode_escape"))
            if t not in best or len(h) > len(best[t]):
                best[t] = h
        elif "is violated" in line or "Error:" in line:
            viol = (viol or "") + line
    subprocess.run(["rm", "-rf", os.path.join(workdir, "meta")])
    return [best[k] for k in sorted(best)], viol


def connack(m):
    return [] if m == NOLIMIT else [{"id": 0x27, "n": m, "s": [], "t": []}]


def to_program(hist, name):
    """-> (program, groups): groups = per model action the indices of its API calls (in call order) and the entry"""
    steps, groups = [], []
    ncall = 1                      # call 0 is the first connect
    serial = 0

    def calls(n, h):
        nonlocal ncall
        groups.append((list(range(ncall, ncall + n)), h))
        ncall += n
    first_max = hist[0]["max"] if hist[0]["a"] != "conn" else None
    # the limit of the first connection: every entry records the limit in force after it
    for h in hist:
        a, p = h["a"], h["p"]
        if a in ("pub", "q0"):
            serial += 1
            q = 1 if a == "pub" else 0
            steps.append({"e": "publish", "qos": q, "topic": [97],
                          "payload": [(serial * 7 + i) % 251 for i in range(p - (8 if q else 6))]})
            calls(1, h)
        elif a == "poll":
            n = p + 2
            steps += [{"e": "poll"}] * n
            calls(n, h)
        elif a == "in1":
            steps.append({"e": "b", "bytes": [0x32, 7, 0, 1, 0x69, 0, 77, 0, 5]})
            n = p + 3
            steps += [{"e": "poll"}] * n
            calls(n, h)
        elif a == "in2":
            i, nret, dup = p
            steps.append({"e": "b", "bytes": [0x34 | (8 if dup else 0), 7, 0, 1, 0x69, 0, i, 0, 40 + i]})
            n = nret + 3
            steps += [{"e": "poll"}] * n
            calls(n, h)
        elif a == "rel":
            i, nret = p
            steps.append({"e": "b", "bytes": [0x62, 2, 0, i]})
            n = nret + 3
            steps += [{"e": "poll"}] * n
            calls(n, h)
        elif a == "drop":
            pass
        elif a == "conn":
            steps.append({"e": "reconnect", "connack": connack(p)})
            calls(1, h)
    m0 = first_max if first_max is not None else NOLIMIT
    prog = {"cfg": {"rx": 128, "tx": 512, "ka": 0, "sei": 300, "client_id": replay.b("lm"), "name": name},
            "steps": steps, "connack": connack(m0)}
    return prog, groups


def compare(groups, lines):
    events = []
    for ln, line in enumerate(lines, 1):
        e = json.loads(line)
        if e["e"] in ("ret", "cancel"):
            events.append((ln, e))
        if e["e"] in ("panic", "watchdog"):
            return ["line %d: %s" % (ln, e["e"])]
    out = []
    for idxs, h in groups:
        evs = [events[i] for i in idxs if i < len(events)]
        if len(evs) < len(idxs):
            out.append("%s: the run ended before this action (%d of %d calls)" % (h["a"], len(evs), len(idxs)))
            break
        a, want = h["a"], h["r"]
        res = [("cancel", "", False) if e["e"] == "cancel" else (e["r"]["k"], e["r"]["v"], e["r"].get("hasmsg", False)) for _, e in evs]
        ln = evs[0][0]
        errs = [r for r in res if r[0] == "err"]
        msgs = sum(1 for r in res if r[2])
        if a in ("pub", "q0"):
            got = "ok" if res[0][0] == "ok" else res[0][1]
            if got != want:
                out.append("line %d: %s(%s) returned %s, specification %s" % (ln, a, h["p"], got, want))
        elif a == "conn":
            if res[0][0] != "ok":
                out.append("line %d: connect returned %s" % (ln, res[0][1]))
        elif want == "PacketTooLarge":
            if not errs or errs[0][1] != "PacketTooLarge" or msgs:
                out.append("line %d: %s: results %s, specification: too large%s" % (ln, a, res[:4], "" if a == "poll" else ", closed, nothing delivered"))
        else:
            if errs:
                out.append("line %d: %s: results %s, specification %s" % (ln, a, res[:4], want))
            elif (want == "msg") != (msgs == 1) and a != "poll":
                out.append("line %d: %s: %d message(s) delivered, specification %s" % (ln, a, msgs, want))
        last = evs[-1][1]
        if not out and "snap" in last:
            if len(last["snap"]["ret"]) != h["nret"]:
                out.append("line %d: after %s %d packets are stored, specification %d" % (evs[-1][0], a, len(last["snap"]["ret"]), h["nret"]))
            elif last["obs"]["live"] != h["live"]:
                out.append("line %d: after %s the handle is %s, specification %s" % (
                    evs[-1][0], a, "live" if last["obs"]["live"] else "dead", "live" if h["live"] else "dead"))
        if out:
            break
    return out


def run(seed, num, depth, outdir, mqv):
    os.makedirs(outdir, exist_ok=True)
    hists, viol = gen(seed, num, depth, os.path.join(outdir, "tlc"))
    if viol:
        raise RuntimeError("the Maximum Packet Size specification violates its own invariant: " + viol)
    all_groups, ppath = [], os.path.join(outdir, "limitsim.ndjson")
    total = 0
    with open(ppath, "w") as f:
        for i, h in enumerate(hists):
            prog, groups = to_program(h, "limitsim-%d-%d" % (seed, i))
            f.write(json.dumps(prog) + "\n")
            all_groups.append(groups)
            total += len(h)
    trace = os.path.join(outdir, "limitsim.trace")
    r = subprocess.run([mqv, "program", ppath, trace], capture_output=True, text=True)
    if r.returncode != 0:
        raise RuntimeError(r.stderr[-2000:])
    os.remove(ppath)
    runs, cur = [], []
    for line in open(trace):
        if '"e":"cfg"' in line and cur:
            runs.append(cur)
            cur = []
        cur.append(line)
    runs.append(cur)
    bad = []
    for i, (groups, lines) in enumerate(zip(all_groups, runs)):
        mm = compare(groups, lines)
        if mm:
            bad.append((i, mm))
    return trace, bad, len(all_groups), total


if __name__ == "__main__":
    trace, bad, n, steps = run(int(sys.argv[1]), int(sys.argv[2]), 40, sys.argv[3], sys.argv[4])
    for i, mm in bad[:10]:
        print("NONCONFORMANT", i, mm[:2])
    print("behaviours=%d steps=%d nonconformant=%d" % (n, steps, len(bad)))
