#!/usr/bin/env python3
"""mkwitness.py ID [--viol PROP] : take the shortest recorded run in which known finding ID was hit (or, with
--viol, in which PROP was violated) from the Observer caches, turn it into a script and store it as
/verif/witness/ID.json; then run it through harness + Observer and print what they say.  Development aid:
witnesses are committed files, the checks only read them."""
import glob, json, os, subprocess, sys
sys.path.insert(0, os.path.dirname(os.path.abspath(__file__)))
import check

did = sys.argv[1]
viol = sys.argv[3] if len(sys.argv) > 3 and sys.argv[2] == "--viol" else None
# only runs recorded from the tree as it is now (the caches also hold runs of seeded changes)
repo_h = check.tree_hash([os.path.join(check.REPO, "src")], (".rs",)) + check.tree_hash([check.REPO], ("Cargo.toml",))[:4]
best = None
for f in sorted(glob.glob(os.path.join(check.CACHE, "obs", "*.json")), key=os.path.getmtime, reverse=True):
    if repo_h not in os.path.basename(f):
        continue
    r = json.load(open(f))
    for v in (r["viol"] if viol else r["kf"]):
        if (viol and v["p"] == viol) or (not viol and v.get("kf") == did):
            if "chunk" not in v or not os.path.exists(v["chunk"]):
                continue
            n = v["run"][1] - v["run"][0]
            if best is None or n < best[0]:
                best = (n, v)
if best is None:
    sys.exit("no recorded run for " + did)
v = best[1]
lines = open(v["chunk"]).read().splitlines()[v["run"][0] - 1:v["run"][1]]
scen = check.trace_to_scenario(lines)
scen["cfg"]["name"] = "witness-" + did
scen["drain"] = True
os.makedirs(os.path.join(check.ROOT, "witness"), exist_ok=True)
out = os.path.join(check.ROOT, "witness", did + ".json")
json.dump(scen, open(out, "w"))
print("wrote", out, "steps", len(scen["steps"]), "from", v["why"])
os.makedirs("/verif/work", exist_ok=True)
open("/verif/work/w.ndjson", "w").write(json.dumps(scen) + "\n")
subprocess.run([check.MQV, "run", "/verif/work/w.ndjson", "/verif/work/w.trace"])
subprocess.run(["python3", os.path.join(check.ROOT, "tools", "obs.py"), "/verif/work/w.trace"])
