#!/usr/bin/env python3
"""obs.py TRACE : run the Observer on one trace file and print its verdict lines (development aid)"""
import json, os, sys
sys.path.insert(0, os.path.dirname(os.path.abspath(__file__)))
import check
kf = json.load(open(os.path.join(check.ROOT, "known_findings.json")))
open_ids = [f["id"] for f in kf["findings"] if f["status"] == "open"]
res = check.run_observer(os.path.abspath(sys.argv[1]), "/verif/work/obs-one", open_ids)
for k in ("viol", "kf"):
    for v in res[k]:
        print(k.upper(), json.dumps(v)[:300])
print("ok" if res["ok"] else "OBSERVER FAILED\n" + res["raw"][-2000:], "states", res["states"])
