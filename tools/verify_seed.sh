#!/bin/sh
# verify_seed.sh WORKTREE ID PROP : confirm the seeded change (suite green with patch, demo red with / green without), store under /verif/seeded/ID
W=$1; ID=$2; PROP=$3
cd $W || exit 2
export CARGO_TARGET_DIR=$W/target CARGO_NET_OFFLINE=true
git checkout -q -- src
git apply patch.diff || { echo "patch.diff does not apply"; exit 2; }
git diff -- src > /tmp/seed-$ID.diff
mv tests/seeded_demo.rs /tmp/seeded_demo-$ID.rs
SUITE=$(cargo test --offline --no-fail-fast 2>&1 | grep -E "^test result" | tr '\n' ' ')
cp /tmp/seeded_demo-$ID.rs tests/seeded_demo.rs
RED=$(cargo test --offline --test seeded_demo 2>&1 | grep -E "^test result" | tr '\n' ' ')
git apply -R /tmp/seed-$ID.diff
GREEN=$(cargo test --offline --test seeded_demo 2>&1 | grep -E "^test result" | tr '\n' ' ')
git apply /tmp/seed-$ID.diff
echo "suite(with patch): $SUITE"; echo "demo(with patch): $RED"; echo "demo(without): $GREEN"
D=/verif/seeded/$ID; mkdir -p $D
cp /tmp/seed-$ID.diff $D/patch.diff; cp tests/seeded_demo.rs $D/seeded_demo.rs; cp notes.md $D/notes.md 2>/dev/null
python3 - "$ID" "$PROP" "$SUITE" "$RED" "$GREEN" <<'PY'
import json,sys
id_,prop,suite,red,green=sys.argv[1:6]
ok = 'failed' in suite and ' 0 failed' in suite and 'FAILED' not in suite and 'FAILED' in red and 'ok.' in green
json.dump({"id":id_,"breaks":prop,"confirmed":ok,"suite_with_patch":suite,"demo_with_patch":red,"demo_without_patch":green,
 "ran":"tools/verify_seed.sh in a scratch worktree of /repo HEAD: cargo test --offline --no-fail-fast (suite, demo moved aside); cargo test --offline --test seeded_demo with and without the patch (git apply -R)"},
 open(f"/verif/seeded/{id_}/meta.json","w"),indent=1)
print("confirmed" if ok else "NOT CONFIRMED")
PY
