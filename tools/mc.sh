#!/bin/sh
# mc.sh CFG [workers] : run TLC on MC_flow with a config, summarised
cd /verif/spec
W=${2:-12}
timeout ${MC_TIMEOUT:-1800} java -Xmx${MC_HEAP:-12g} -XX:+UseParallelGC -cp /opt/veriftools/tla/tla2tools.jar:/opt/veriftools/tla/CommunityModules-deps.jar tlc2.TLC -workers $W -metadir /verif/work/mc/meta-$$ -cleanup -noGenerateSpecTE -config $1 ${3:-MC_flow.tla} 2>&1 | grep -v -E "^(Parsing|Semantic|Linting|$)" | grep -E "Error|violated|states generated|depth of|^State [0-9]+:|Finished|Progress" | tail -${MC_TAIL:-40}
rm -rf /verif/work/mc/meta-$$
