#!/usr/bin/env python3
"""Behaviours of spec/Arena.tla (transmit arena: encode behind the compacted prefix, retain, ack in
any order, QoS 0 / CONNECT in the scratch space, reconnects) replayed against the real crate.

Every model action becomes API calls plus the I/O decisions of a transport that accepts everything;
after every return the crate's (identifier, offset, length) of each retained packet and its `used`
watermark are compared with the specification's, and the results of the requests with the model's
answers.  The recorded traces are also monitored by the Observer (every retransmission equals the
first transmission, C17)."""
import json
import os
import re
import subprocess
import sys

sys.path.insert(0, os.path.dirname(os.path.abspath(__file__)))
import replay  # noqa: E402

SPEC = replay.SPEC
BIG = replay.BIG
CLIENT_ID = "ar"
CONNLEN = 30


def gen(seed, num, depth, workdir, cap, timeout=300):
    os.makedirs(workdir, exist_ok=True)
    for f in ("Arena.tla", "MC_arenasim.tla"):
        subprocess.run(["cp", os.path.join(SPEC, f), workdir], check=True)
    cfg = open(os.path.join(SPEC, "MC_arenasim.cfg")).read()
    open(os.path.join(workdir, "MC_arenasim.cfg"), "w").write(re.sub(r"CAP = \d+", "CAP = %d" % cap, cfg))
    cmd = "timeout %d %s -workers 1 -seed %d -simulate num=%d -depth %d -metadir %s/meta -cleanup -noGenerateSpecTE -config MC_arenasim.cfg MC_arenasim.tla" % (
        timeout, replay.TLC, seed, num, depth, workdir)
    r = subprocess.run(cmd, shell=True, cwd=workdir, capture_output=True, text=True)
    best, viol = {}, None
    for line in r.stdout.splitlines():
        m = re.match(r'^"@H (\d+) (.*)"$', line.strip())
        if m:
            t = int(m.group(1))
            h = json.loads(m.group(2).encode().decode("unicode_escape"))
            if t not in best or len(h) > len(best[t]):
                best[t] = h
        elif "is violated" in line or "Error:" in line:
            viol = (viol or "") + line
    subprocess.run(["rm", "-rf", os.path.join(workdir, "meta")])
    return [best[k] for k in sorted(best)], viol


def payload_len(total, qos):
    over = 8 if qos else 6          # fixed header (2) + topic "a" (3) + identifier (2, QoS > 0) + property length (1)
    return total - over if total <= 129 else total - over - 1


def puback(pid):
    return [0x40, 0x02, pid >> 8, pid & 255]


def to_scenario(hist, name, cap):
    steps = [{"e": "conn"}, {"e": "w", "acc": BIG}, {"e": "f", "r": "ok"}, {"e": "b", "bytes": [0x20, 3, 0, 0, 0]},
             {"e": "r", "got": BIG}, {"e": "r", "got": BIG}, {"e": "r", "got": BIG}]
    unsent = 0          # retained packets that the next call retransmits first (after a resumed reconnect)
    n = 0
    expect = []         # per return of the run (after the first connect): the model record to compare with
    prev = {"a": "init", "p": 0, "r": "ok", "ret": [], "used": 0}
    for h in hist:
        a, p = h["a"], h["p"]
        resend = [{"e": "w", "acc": BIG}, {"e": "f", "r": "ok"}] * unsent
        if a == "pub":
            n += 1
            steps.append({"e": "publish", "qos": 1, "topic": [97], "payload": [(n * 7 + i) % 251 for i in range(payload_len(p, 1))]})
            steps += resend
            unsent = 0
            if h["r"] == "ok":
                steps += [{"e": "w", "acc": BIG}, {"e": "f", "r": "ok"}]
        elif a == "q0":
            n += 1
            steps.append({"e": "publish", "qos": 0, "topic": [97], "payload": [(n * 5 + i) % 251 for i in range(payload_len(p, 0))]})
            steps += resend
            unsent = 0
            if h["r"] == "ok":
                steps += [{"e": "w", "acc": BIG}, {"e": "f", "r": "ok"}]
        elif a == "ack":
            if unsent:
                # a poll that made wire progress (the retransmissions) returns before it reads; the
                # broker acknowledges what it has received on this connection
                steps.append({"e": "poll"})
                steps += resend
                expect.append(dict(prev, a="resend"))
                unsent = 0
            steps.append({"e": "b", "bytes": puback(p)})
            steps.append({"e": "poll"})
            steps += [{"e": "r", "got": BIG}] * 3
        elif a == "reconn":
            sp = p == 1
            steps += [{"e": "drop"}, {"e": "conn"}, {"e": "w", "acc": BIG}, {"e": "f", "r": "ok"},
                      {"e": "b", "bytes": [0x20, 3, 1 if sp else 0, 0, 0]}] + [{"e": "r", "got": BIG}] * 3
            unsent = len(h["ret"]) if sp else 0
        else:
            raise ValueError(a)
        expect.append(h)
        prev = h
    cfg = {"rx": 64, "tx": cap, "client_id": replay.b(CLIENT_ID), "ka": 0, "sei": 60, "name": name}
    return {"cfg": cfg, "steps": steps, "drain": True}, expect


# a payload that does not fit behind an encoded header is reported as a payload error, a header that does
# not fit as BufferTooSmall: the model does not tell the two apart
ERR = {"BufferTooSmall": ("err", ("BufferTooSmall", "Payload")), "NotReady": ("err", ("NotReady",)), "ok": ("ok", None),
       "InflightExhausted": ("err", ("InflightExhausted",))}


def compare(hist, lines, cap):
    events = []
    for ln, line in enumerate(lines, 1):
        e = json.loads(line)
        if e["e"] == "drainstart":
            break
        if e["e"] == "ret":
            events.append((ln, e))
        if e["e"] in ("mismatch", "departed"):
            return ["line %d: script/I-O mismatch: %s" % (ln, e["msg"])]
        if e["e"] in ("panic", "watchdog"):
            return ["line %d: %s" % (ln, e["e"])]
    events = events[1:]          # the initial connect
    out = []
    if len(events) < len(hist):
        out.append("the run has %d returns, the behaviour %d" % (len(events), len(hist)))
    for (ln, e), h in zip(events, hist):
        snap = e["snap"]
        got = ([[x[0], x[1], x[2]] for x in snap["ret"]], snap["used"])
        want = ([list(x) for x in h["ret"]], h["used"])
        if h["a"] in ("pub", "q0"):
            k, v = ERR[h["r"]]
            if e["r"]["k"] != k or (v and e["r"]["v"] not in v):
                out.append("line %d (%s %s): result %s:%s, specification %s" % (ln, h["a"], h["p"], e["r"]["k"], e["r"]["v"], h["r"]))
        if got != want:
            out.append("line %d (%s %s): retained (id, offset, len) / used = %s, specification %s" % (ln, h["a"], h["p"], got, want))
        if snap["cap"] != cap:
            out.append("line %d: arena capacity %s" % (ln, snap["cap"]))
        if out:
            break
    return out


def run(seed, num, depth, outdir, mqv, cap=256):
    os.makedirs(outdir, exist_ok=True)
    hists, viol = gen(seed, num, depth, os.path.join(outdir, "tlc"), cap)
    if viol:
        raise RuntimeError("the arena specification violates its own invariant: " + viol[:600])
    scen = os.path.join(outdir, "arenasim-%d.ndjson" % cap)
    expects = []
    with open(scen, "w") as f:
        for i, h in enumerate(hists):
            sc, ex = to_scenario(h, "arenasim-%d-%d-%d" % (cap, seed, i), cap)
            expects.append(ex)
            f.write(json.dumps(sc) + "\n")
    trace = os.path.join(outdir, "arenasim-%d.trace" % cap)
    r = subprocess.run([mqv, "run", scen, trace], capture_output=True, text=True)
    if r.returncode != 0:
        raise RuntimeError(r.stderr[-2000:])
    os.remove(scen)
    runs, cur = [], []
    for line in open(trace):
        if '"e":"cfg"' in line and cur:
            runs.append(cur)
            cur = []
        cur.append(line)
    runs.append(cur)
    bad = []
    for i, (h, lines) in enumerate(zip(expects, runs)):
        mm = compare(h, lines, cap)
        if mm:
            bad.append((i, mm))
    return trace, bad, len(hists), sum(len(h) for h in hists)


if __name__ == "__main__":
    trace, bad, n, steps = run(int(sys.argv[1]), int(sys.argv[2]), int(sys.argv[3]), sys.argv[4], sys.argv[5],
                               int(sys.argv[6]) if len(sys.argv) > 6 else 256)
    for i, mm in bad[:8]:
        print("NONCONFORMANT", i, mm[:2])
    print("behaviours=%d steps=%d nonconformant=%d" % (n, steps, len(bad)))
