#!/bin/sh
# try_mutant.sh PATCH "PROPS..." [tier]: apply a patch to /repo, run the quick checks of the given properties, undo
PATCH=$1; PROPS=$2; TIER=${3:-quick}
cd /repo && git apply "$PATCH" || { echo "patch does not apply"; exit 2; }
cd /verif
for p in $PROPS; do
  python3 tools/check.py $p --tier $TIER 2>&1 | grep -E "VIOLATION|TOOL|holds|VIOLATED|DRIFT" | cut -c1-260
done
git -C /repo checkout -- . && git -C /repo status --short | head -3
git -C /verif checkout -- evidence 2>/dev/null   # evidence of a mutated tree is not kept
(cd /verif/harness && cargo build --release --offline 2>&1 | grep -E "^error" | head -3)
