#!/usr/bin/env python3
"""Offline setup: copy /repo/Cargo.lock into the harness, build it with the hooks enabled,
SANY-parse every specification module."""
import os, shutil, subprocess, sys
ROOT = os.path.dirname(os.path.dirname(os.path.abspath(__file__)))
H = os.path.join(ROOT, "harness")
shutil.copy("/repo/Cargo.lock", os.path.join(H, "Cargo.lock"))
env = dict(os.environ, CARGO_NET_OFFLINE="true")
r = subprocess.run("cargo build --release --offline", shell=True, cwd=H, env=env)
if r.returncode != 0:
    sys.exit(r.returncode)
spec = os.path.join(ROOT, "spec")
bad = 0
for f in sorted(os.listdir(spec)):
    if f.endswith(".tla"):
        r = subprocess.run(["tla-sany", f], cwd=spec, capture_output=True, text=True)
        ok = "rror" not in r.stdout and r.returncode == 0
        print(("ok   " if ok else "FAIL ") + f)
        bad += 0 if ok else 1
sys.exit(1 if bad else 0)
