#!/usr/bin/env python3
"""cut.py TRACE LINE OUT : extract the run (cfg..end) containing LINE"""
import sys
lines = open(sys.argv[1]).read().splitlines()
n = int(sys.argv[2]) - 1
s = n
while s > 0 and '"e":"cfg"' not in lines[s]: s -= 1
e = n
while e < len(lines) - 1 and '"e":"end"' not in lines[e]: e += 1
open(sys.argv[3], 'w').write('\n'.join(lines[s:e + 1]) + '\n')
print(f"lines {s+1}..{e+1} -> {sys.argv[3]} (line {n+1} is now {n-s+1})")
