"""Execution corpus: which schedules are run against the real crate for which property.

A *group* is a directory of recorded traces (*.trace, NDJSON) produced by the harness; groups are
cached by (group, tier, /repo source hash, machinery hash, seed).  Every property is monitored on
every trace of every group it lists (the Observer evaluates all monitors anyway), so the common
group is paid for once per tree.
"""
import json
import os
import subprocess

ASSUMPTIONS = [
    "transports obey embedded-io-async: I/O futures are cancel-safe; write() returns Ok(0) for a non-empty buffer only in the "
    "`wzero` runs and only at a packet boundary (the client documents WriteZero as a non-fatal error; mid-packet it is outside the contract)",
    "conformant broker as modelled in harness/src/rnd.rs and spec/Minimq.tla: respects the client's Receive Maximum (8) and "
    "Maximum Packet Size (receive buffer), does not reuse an identifier in flight, acknowledges only what it received apart from "
    "explicitly explored stale/duplicate acknowledgements, reports session-present only if it has the session",
    "a benign broker does not announce a Maximum Packet Size smaller than a packet it still has a session obligation for (what the client does otherwise is known finding D12; liveness properties are judged against brokers that do not)",
    "virtual time: the executor wakes the client no later than the deadline it registered; TLC integers are 32-bit, one run spans < 24 days",
    "QoS 0 publishes are never cancelled (documented as not cancel-safe)",
    "trusted base: TLC 1.8 + CommunityModules Json/IOUtils, the harness executor/SimIo/virtual clock, MqttCodec.tla as transcription of MQTT 5.0",
]


def b(s):
    return list(s.encode())


BASE_CFGS = [
    {"rx": 128, "tx": 1152, "client_id": b("test"), "ka": 60, "sei": 300},
    {"rx": 96, "tx": 256, "client_id": b("c2"), "ka": 30, "sei": 0, "downgrade": True},
    {"rx": 256, "tx": 160, "client_id": b(""), "ka": 0, "sei": 86400,
     "will": {"topic": b("will/t"), "payload": b("gone"), "qos": 1, "retain": True,
              "props": [{"id": 0x01, "n": 1}, {"id": 0x18, "n": 30}, {"id": 0x26, "s": b("k"), "t": b("v")}]}},
    {"rx": 64, "tx": 96, "client_id": b("tiny"), "ka": 10, "sei": 10, "auth": {"user": b("u"), "pass": [1, 2, 3]}},
    {"rx": 128, "tx": 1152, "client_id": b("wrap"), "ka": 60, "sei": 300, "first_id": 65530},
    {"rx": 128, "tx": 512, "client_id": b("emptypw"), "ka": 20, "sei": 5, "auth": {"user": b("user"), "pass": []}},
]

# wills whose properties are not legal on a will (Will::new must refuse them), and a legal one with every will property
BADWILL_CFGS = [
    {"rx": 128, "tx": 256, "client_id": b("bw1"), "ka": 0, "sei": 0,
     "will": {"topic": b("w"), "payload": b("x"), "qos": 0, "retain": False, "props": [{"id": 0x23, "n": 1}]}},
    {"rx": 128, "tx": 256, "client_id": b("bw2"), "ka": 0, "sei": 0,
     "will": {"topic": b("w"), "payload": b("x"), "qos": 1, "retain": False, "props": [{"id": 0x01, "n": 1}, {"id": 0x0B, "n": 5}]}},
    {"rx": 200, "tx": 320, "client_id": b("gw"), "ka": 0, "sei": 0,
     "will": {"topic": b("w/all"), "payload": b("x"), "qos": 2, "retain": True,
              "props": [{"id": 0x18, "n": 7}, {"id": 0x01, "n": 0}, {"id": 0x02, "n": 60}, {"id": 0x03, "s": b("text/plain"), "t": []},
                        {"id": 0x08, "s": b("resp/t"), "t": []}, {"id": 0x09, "s": [1, 2, 3], "t": []},
                        {"id": 0x26, "s": b("a"), "t": b("b")}, {"id": 0x26, "s": b("a"), "t": b("c")}]}},
]

TIME_CFGS = [dict(BASE_CFGS[0], ka=k, client_id=b("ka%d" % k)) for k in (0, 1, 2, 3, 4, 5, 6, 7, 8, 9, 10, 11, 60)]

PROFILES = {
    "flow": {},
    "faults": {"p_fault": 0.05, "p_dead_call": 0.7, "p_session_loss": 0.25, "calls": 30, "p_broker_disconnect": 0.06},
    "cancel": {"p_cancel": 0.3, "p_pend": 0.45, "p_partial": 0.6, "p_byte": 0.3, "calls": 30},
    "inbound": {"p_inbound": 0.8, "w_poll": 14, "w_recv": 3, "calls": 40, "p_stale": 0.08},
    "limits": {"rm": [1, 1, 2, 3], "maxpkt": [0, 0, 40, 60, 200], "maxqos": [2, 1, 0], "payload_max": 60,
               "assign_client_id": True, "p_session_loss": 0.05},
    "invalid": {"p_invalid_props": 0.35, "calls": 30},
    "garbage": {"p_garbage": 0.12, "p_bad_connack": 0.25, "p_dead_call": 0.8, "p_inbound": 0.5, "calls": 30,
                "p_session_loss": 0.3},
    "timing": {"p_wzero": 0.05, "time": True, "ska": [0, 0, 1, 2, 4, 7, 12, 65535], "p_no_pingresp": 0.3, "w_poll": 16, "w_recv": 4,
               "p_cancel": 0.03, "calls": 30, "p_delay": 0.5},
    "stall": {"time": True, "p_stall": 0.3, "p_pend": 0.35, "p_partial": 0.6, "ska": [0, 2, 4], "w_poll": 10, "calls": 30,
              "p_cancel": 0.1, "p_delay": 0.3},
    "arena": {"payload_max": 180, "w_pub0": 6, "w_pub1": 5, "w_pub2": 4, "w_sub": 2, "w_unsub": 1, "w_poll": 6, "p_drop": 0.08,
              "p_session_loss": 0.03, "rm": [0, 8, 3], "calls": 40, "p_fail_ack": 0.02},
    "keepalive": {"time": True, "ska": [0, 0, 0, 3, 6, 8, 65535], "p_no_pingresp": 0.15, "w_poll": 16, "w_recv": 4, "p_cancel": 0.02,
                  "calls": 30, "p_delay": 0.7, "p_fault": 0.0, "w_pub0": 1, "w_pub1": 1, "w_pub2": 0, "w_sub": 0, "w_unsub": 0,
                  "w_disconnect": 0, "p_drop": 0.0, "p_inbound": 0.1, "p_broker_disconnect": 0.0},
    # owed acknowledgements half-written when the poll is cancelled, then QoS 0 traffic
    "ackcancel": {"p_inbound": 0.7, "p_cancel": 0.3, "p_pend": 0.5, "p_partial": 0.7, "p_byte": 0.4, "w_pub0": 8, "w_poll": 10,
                  "w_recv": 3, "w_pub1": 1, "w_pub2": 1, "w_sub": 0, "w_unsub": 0, "w_disconnect": 0, "calls": 30},
    # inbound QoS 2 exchanges across connection loss, lost broker sessions and refused CONNACKs
    "sessions": {"p_inbound": 0.7, "p_bad_connack": 0.3, "p_session_loss": 0.4, "p_drop": 0.15, "w_poll": 12, "w_recv": 3,
                 "p_dead_call": 0.6, "calls": 40, "max_conns": 10},
    # keep-alive traffic under cancellation: polls dropped while a PINGREQ is being written / flushed
    "pingcancel": {"p_stall_loop": 0.08, "time": True, "ska": [1, 2, 3], "p_pend": 0.5, "p_cancel": 0.45, "p_partial": 0.3, "p_no_pingresp": 0.1,
                   "w_poll": 20, "w_recv": 4, "w_pub0": 1, "w_pub1": 1, "w_pub2": 0, "w_sub": 0, "w_unsub": 0, "w_disconnect": 0,
                   "p_drop": 0.0, "p_fault": 0.0, "p_inbound": 0.1, "p_broker_disconnect": 0.0, "calls": 30, "p_delay": 0.3},
    # a transport whose write accepts nothing now and then (Ok(0)): the client reports it and stays connected
    "wzero": {"p_wzero": 0.12, "rm": [1, 2, 3, 8], "w_pub1": 8, "w_pub2": 6, "w_pub0": 3, "p_fault": 0.0, "p_drop": 0.03,
              "p_cancel": 0.05, "calls": 40, "p_inbound": 0.3},
    "wrap": {"w_pub1": 8, "w_pub2": 8, "w_sub": 4, "w_unsub": 3, "rm": [1, 2, 3], "calls": 60, "p_session_loss": 0.02,
             "p_stale": 0.0, "p_setid": 0.7, "p_drop": 0.12, "p_fail_ack": 0.0, "max_conns": 10},
}

# (profile, config list, scenarios in quick tier, scenarios in thorough tier)
COMMON = [
    ("flow", BASE_CFGS[:4] + [BASE_CFGS[5]], 60, 600),
    ("faults", BASE_CFGS[:4], 40, 400),
    ("cancel", BASE_CFGS[:4], 50, 500),
    ("inbound", BASE_CFGS[:4], 40, 400),
    ("limits", BASE_CFGS[:4], 40, 400),
    ("invalid", BASE_CFGS[:2] + BADWILL_CFGS, 25, 250),
    ("garbage", BASE_CFGS[:4], 40, 400),
    ("arena", [BASE_CFGS[0], {"rx": 256, "tx": 320, "client_id": b("ar"), "ka": 0, "sei": 60},
               {"rx": 256, "tx": 512, "client_id": b("ar2"), "ka": 0, "sei": 60}], 45, 450),
    ("timing", TIME_CFGS, 39, 650),
    ("keepalive", TIME_CFGS, 39, 650),
    ("stall", [TIME_CFGS[2], TIME_CFGS[4], TIME_CFGS[6], TIME_CFGS[10]], 32, 320),
    ("wrap", [BASE_CFGS[4], BASE_CFGS[0]], 60, 400),
    ("ackcancel", BASE_CFGS[:2], 40, 400),
    ("sessions", BASE_CFGS[:3], 45, 450),
    ("pingcancel", [TIME_CFGS[2], TIME_CFGS[4], TIME_CFGS[6]], 30, 300),
    ("wzero", BASE_CFGS[:3], 30, 300),
]

# Edge-cover replay of the specification's state graph: (config, paths sampled in quick tier; thorough = all)
COVER = {
    "quick": [("MC_cover_q1.cfg", 500), ("MC_cover_q2.cfg", 400), ("MC_cover_q3.cfg", 500)],
    "thorough": [("MC_cover_q1.cfg", None), ("MC_cover_q2.cfg", None), ("MC_cover_q3.cfg", None),
                 ("MC_cover_q4.cfg", 30000)],
}
SIM = {"quick": [("MC_sim.cfg", 400, 120)], "thorough": [("MC_sim.cfg", 8000, 160)]}

TWINS = {"quick": 150, "thorough": 3000}

SPECIFIC = {
    "C01": ["legality", "shapes", "downgrade"],
    "C07": ["downgrade", "window"],
    "C06": ["window"],
    "C03": ["window"],
    "C20": ["replies"],
    "C04": ["vectors", "inbound", "limitsim"],
    "C08": ["vectors", "readersim"],
    "C09": ["shapes", "legality", "downgrade", "arenasim"],
    "C19": ["legality", "downgrade"],
    "C11": ["vectors"],
    "C12": ["readersim", "limitsim"],
    "C14": ["vectors", "readersim", "maxima", "limitsim", "replies"],
    "C10": ["timesim"],
    "C13": ["twins-cancel", "twins-fragcancel"],
    "C15": ["twins-fragment", "twins-stall", "twins-fragcancel", "readersim"],
    "C17": ["arenasim", "twins-aged"],
    # property -> extra groups (generated by tools/gen_*.py, registered in GENERATORS below)
}


FLOW_PROPS_ = None
FLOW_PROPS = {"C01", "C02", "C03", "C04", "C05", "C06", "C07", "C09", "C11", "C12", "C14", "C16", "C17", "C18"}


def groups_for(prop, tier):
    g = ["common", "witness"]
    if prop in FLOW_PROPS:
        g += ["cover", "sim"]
    return g + SPECIFIC.get(prop, [])


def run(cmd):
    r = subprocess.run(cmd, capture_output=True, text=True)
    if r.returncode != 0:
        raise RuntimeError("command failed: %s\n%s" % (cmd, r.stderr[-2000:]))
    return r.stderr.strip()


def gen_common(tier, seed, outdir, mqv, root):
    tool_errors, samples = [], []
    for i, (pname, cfgs, nq, nt) in enumerate(COMMON):
        n = nq if tier == "quick" else nt
        pf = os.path.join(outdir, "profile-%s.json" % pname)
        json.dump(PROFILES[pname], open(pf, "w"))
        cf = os.path.join(outdir, "cfgs-%s.ndjson" % pname)
        open(cf, "w").write("\n".join(json.dumps(c) for c in cfgs) + "\n")
        out = os.path.join(outdir, "%02d-%s.trace" % (i, pname))
        msg = run([mqv, "random", str(seed * 100 + i), str(n), pf, out, cf])
        samples.append({"group": "common", "profile": pname, "scenarios": n, "harness": msg})
    json.dump({"tool_errors": tool_errors, "samples": samples}, open(os.path.join(outdir, "meta.json"), "w"))


def gen_witness(tier, seed, outdir, mqv, root):
    wdir = os.path.join(root, "witness")
    scen = os.path.join(outdir, "witness.ndjson")
    names = []
    with open(scen, "w") as f:
        for fn in sorted(os.listdir(wdir)) if os.path.isdir(wdir) else []:
            if fn.endswith(".json"):
                sc = json.load(open(os.path.join(wdir, fn)))
                for s in (sc if isinstance(sc, list) else [sc]):
                    f.write(json.dumps(s) + "\n")
                    names.append(fn)
    msg = run([mqv, "run", scen, os.path.join(outdir, "witness.trace")]) if names else "no witnesses"
    json.dump({"tool_errors": [], "samples": [{"group": "witness", "files": names, "harness": msg}]},
              open(os.path.join(outdir, "meta.json"), "w"))


def cover_hists(cfg, root):
    """edge-cover behaviours of one configuration, cached by the hash of the specification"""
    import gzip
    import hashlib
    import edgecover
    spec = os.path.join(root, "spec")
    h = hashlib.sha256()
    for f in ("Minimq.tla", "MC_flow.tla", "Quota.tla", cfg):
        h.update(open(os.path.join(spec, f), "rb").read())
    h.update(open(os.path.join(root, "tools", "edgecover.py"), "rb").read())
    key = h.hexdigest()[:16]
    cdir = os.path.join(root, "cover")
    os.makedirs(cdir, exist_ok=True)
    path = os.path.join(cdir, "%s-%s.json.gz" % (cfg, key))
    if os.path.exists(path):
        return json.load(gzip.open(path, "rt"))
    work = os.path.join(cdir, "work-" + cfg)
    dot, gen, distinct = edgecover.dump(cfg, work)
    nodes, edges, init = edgecover.load(dot)
    paths, left = edgecover.cover(nodes, edges, init)
    hists = [edgecover.to_hist(p, nodes, edges) for p in paths]
    os.remove(dot)
    for old in os.listdir(cdir):
        if old.startswith(cfg + "-") and old.endswith(".json.gz"):
            os.remove(os.path.join(cdir, old))          # derived from an older specification
    subprocess.run(["rm", "-rf", work])
    data = {"cfg": cfg, "states": distinct, "generated": gen, "edges": len(edges), "uncovered": left, "hists": hists}
    json.dump(data, gzip.open(path, "wt"))
    return data


def gen_cover(tier, seed, outdir, mqv, root):
    import random
    import replay
    samples, drift = [], []
    for cfg, limit in COVER[tier]:
        data = cover_hists(cfg, root)
        hists = data["hists"]
        if limit is not None and len(hists) > limit:
            rnd = random.Random(seed * 7919 + len(hists))
            hists = rnd.sample(hists, limit)
        trace, bad, steps = replay.run_hists(hists, outdir, mqv, "cover-" + cfg.replace(".cfg", ""))
        drift += [{"cfg": cfg, "behaviour": i, "mismatch": mm[:2]} for i, mm in bad[:20]]
        samples.append({"group": "cover", "cfg": cfg, "spec_states": data["states"], "spec_edges": data["edges"],
                        "paths_total": len(data["hists"]), "paths_replayed": len(hists), "steps_replayed": steps,
                        "nonconformant": len(bad),
                        "example": [[e["a"], e["p"]] for e in hists[0][:12]] if hists else []})
    json.dump({"tool_errors": [], "samples": samples, "drift": drift}, open(os.path.join(outdir, "meta.json"), "w"))


def gen_sim(tier, seed, outdir, mqv, root):
    import replay
    samples, drift, errs = [], [], []
    for cfg, num, depth in SIM[tier]:
        hists, viol, raw = replay.gen(cfg, seed, num, depth, os.path.join(outdir, "tlc"))
        if viol:
            errs.append("simulation reported: " + viol[:500])
        if not hists:
            errs.append("no behaviours generated: " + raw[-500:])
            continue
        trace, bad, steps = replay.run_hists(hists, outdir, mqv, "sim-" + cfg.replace(".cfg", ""))
        drift += [{"cfg": cfg, "behaviour": i, "mismatch": mm[:2]} for i, mm in bad[:20]]
        samples.append({"group": "sim", "cfg": cfg, "behaviours": len(hists), "steps_replayed": steps, "nonconformant": len(bad)})
    json.dump({"tool_errors": errs, "samples": samples, "drift": drift}, open(os.path.join(outdir, "meta.json"), "w"))


def gen_vectors(tier, seed, outdir, mqv, root):
    import gen_vectors as gv
    samples = []
    for rx in ((64,) if tier == "quick" else (64, 33, 200)):
        vs = gv.generate(tier, seed, rx)
        vf = os.path.join(outdir, "vectors-%d.ndjson" % rx)
        with open(vf, "w") as f:
            for v in vs:
                f.write(json.dumps(v) + "\n")
        msg = run([mqv, "vectors", vf, os.path.join(outdir, "vectors-%d.trace" % rx), str(rx)])
        os.remove(vf)
        samples.append({"group": "vectors", "rx": rx, "vectors": len(vs), "harness": msg, "example": vs[len(vs) // 2]})
    json.dump({"tool_errors": [], "samples": samples}, open(os.path.join(outdir, "meta.json"), "w"))


TIMESIM = {"quick": ([0, 1000, 2000, 3000, 5000, 6000, 9000, 10000, 11000, 60000], 60),
           "thorough": ([0, 1000, 2000, 3000, 4000, 5000, 6000, 7000, 8000, 9000, 10000, 11000, 20000, 60000], 1500)}


def gen_timesim(tier, seed, outdir, mqv, root):
    import replay_time
    ks, num = TIMESIM[tier]
    trace, bad, n, steps = replay_time.run(ks, seed, num, 110, outdir, mqv)
    drift = [{"cfg": "Timers", "behaviour": i, "mismatch": mm[:2]} for i, mm in bad[:20]]
    json.dump({"tool_errors": [], "drift": drift,
               "samples": [{"group": "timesim", "keep_alives_ms": ks, "behaviours": n, "steps_replayed": steps, "nonconformant": len(bad)}]},
              open(os.path.join(outdir, "meta.json"), "w"))


def gen_readersim(tier, seed, outdir, mqv, root):
    import replay_reader
    trace, bad, n, steps = replay_reader.run(seed, 600 if tier == "quick" else 20000, outdir, mqv)
    drift = [{"cfg": "Reader", "behaviour": i, "mismatch": mm[:2]} for i, mm in bad[:20]]
    json.dump({"tool_errors": [], "drift": drift,
               "samples": [{"group": "readersim", "behaviours": n, "read_calls_replayed": steps, "nonconformant": len(bad)}]},
              open(os.path.join(outdir, "meta.json"), "w"))


ARENASIM = {"quick": ([256, 96], 120, 50), "thorough": ([64, 96, 160, 256, 512, 1152], 1500, 90)}


def gen_arenasim(tier, seed, outdir, mqv, root):
    import replay_arena
    caps, num, depth = ARENASIM[tier]
    samples, drift = [], []
    for cap in caps:
        trace, bad, n, steps = replay_arena.run(seed, num, depth, outdir, mqv, cap)
        drift += [{"cfg": "Arena CAP=%d" % cap, "behaviour": i, "mismatch": mm[:2]} for i, mm in bad[:10]]
        samples.append({"group": "arenasim", "arena_bytes": cap, "behaviours": n, "steps_replayed": steps, "nonconformant": len(bad)})
    json.dump({"tool_errors": [], "drift": drift, "samples": samples}, open(os.path.join(outdir, "meta.json"), "w"))


LIMITSIM = {"quick": (250, 40), "thorough": (6000, 60)}


def gen_limitsim(tier, seed, outdir, mqv, root):
    import replay_limits
    num, depth = LIMITSIM[tier]
    trace, bad, n, steps = replay_limits.run(seed, num, depth, outdir, mqv)
    drift = [{"cfg": "Limits", "behaviour": i, "mismatch": mm[:2]} for i, mm in bad[:20]]
    json.dump({"tool_errors": [], "drift": drift,
               "samples": [{"group": "limitsim", "behaviours": n, "steps_replayed": steps, "nonconformant": len(bad),
                            "lengths": replay_limits.LENS, "limits": replay_limits.MAXES}]},
              open(os.path.join(outdir, "meta.json"), "w"))


AGED_CFGS = [{"rx": 128, "tx": tx, "client_id": b("ag%d" % tx), "ka": 0, "sei": 300} for tx in (96, 160, 256, 320, 1152)]
# (history profile, overrides, pairs quick, pairs thorough)
# "keep": the capacity program runs on the connection the history ended on (if alive), so the history's
# CONNACKs carry no limits, like the fresh twin's; otherwise it starts on a new, resumed connection
PLAIN = {"rm": [0], "maxpkt": [0], "maxqos": [2], "ska": [0], "assign_client_id": False, "keep": True}
AGED = [("arena", {}, 10, 100), ("flow", {}, 6, 60), ("cancel", {}, 6, 60), ("faults", {}, 6, 60), ("limits", {}, 8, 80),
        ("arena", PLAIN, 10, 100), ("flow", PLAIN, 8, 80), ("cancel", PLAIN, 8, 80), ("faults", PLAIN, 8, 80),
        ("sessions", PLAIN, 8, 80),
        # refused subscriptions / failing acknowledgements release their slot and bytes like granted ones (S-C17-h)
        ("flow", dict(PLAIN, p_fail_ack=0.5, w_sub=6, w_unsub=3), 8, 80),
        ("arena", {"calls": 400}, 2, 20), ("arena", dict(PLAIN, calls=400), 2, 20),
        ("arena", {"calls": 3000, "max_conns": 40}, 0, 4), ("arena", dict(PLAIN, calls=3000, max_conns=40), 0, 4)]


def gen_aged(tier, seed, outdir, mqv, root):
    samples = []
    cf = os.path.join(outdir, "cfgs-aged.ndjson")
    open(cf, "w").write("\n".join(json.dumps(c) for c in AGED_CFGS) + "\n")
    for i, (pname, over, nq, nt) in enumerate(AGED):
        n = nq if tier == "quick" else nt
        if n == 0:
            continue
        pf = os.path.join(outdir, "profile-aged-%d.json" % i)
        prof = dict(PROFILES[pname], **over)
        keep = prof.pop("keep", False)
        json.dump(prof, open(pf, "w"))
        msg = run([mqv, "aged", str(seed * 100 + i), str(n), pf, os.path.join(outdir, "aged-%d-%s.trace" % (i, pname)), cf]
                  + (["keep"] if keep else []))
        samples.append({"group": "twins-aged", "history_profile": pname, "overrides": over, "pairs": n, "harness": msg})
    json.dump({"tool_errors": [], "samples": samples}, open(os.path.join(outdir, "meta.json"), "w"))


def gen_program(name):
    def gen(tier, seed, outdir, mqv, root):
        import gen_programs
        progs = gen_programs.GROUPS[name]()
        pf = os.path.join(outdir, name + ".ndjson")
        with open(pf, "w") as f:
            for p in progs:
                f.write(json.dumps(p) + "\n")
        msg = run([mqv, "program", pf, os.path.join(outdir, name + ".trace")])
        os.remove(pf)
        json.dump({"tool_errors": [], "samples": [{"group": name, "programs": len(progs),
                                                    "requests": sum(len([s for s in p["steps"] if s["e"] not in ("poll", "b")]) for p in progs),
                                                    "harness": msg}]},
                  open(os.path.join(outdir, "meta.json"), "w"))
    return gen


def gen_twins(kind):
    def gen(tier, seed, outdir, mqv, root):
        n = TWINS[tier]
        msg = run([mqv, "twins", kind, str(seed), str(n), os.path.join(outdir, "twins-%s.trace" % kind)])
        json.dump({"tool_errors": [], "samples": [{"group": "twins-" + kind, "pairs": n, "harness": msg}]},
                  open(os.path.join(outdir, "meta.json"), "w"))
    return gen


GENERATORS = {"window": gen_program("window"), "limitsim": gen_limitsim, "replies": gen_program("replies"), "downgrade": gen_program("downgrade"), "inbound": gen_program("inbound"), "legality": gen_program("legality"), "shapes": gen_program("shapes"), "maxima": gen_program("maxima"),
              "twins-aged": gen_aged, "arenasim": gen_arenasim, "readersim": gen_readersim, "timesim": gen_timesim, "vectors": gen_vectors, "twins-stall": gen_twins("stall"), "twins-fragcancel": gen_twins("fragcancel"), "twins-cancel": gen_twins("cancel"), "twins-fragment": gen_twins("fragment"), "common": gen_common, "witness": gen_witness, "cover": gen_cover, "sim": gen_sim}


def generate(group, tier, seed, outdir, mqv, root):
    GENERATORS[group](tier, seed, outdir, mqv, root)
