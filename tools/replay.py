#!/usr/bin/env python3
"""Direction A of the conformance binding: behaviours of spec/Minimq.tla -> the real crate.

  gen(cfg, seed, num, depth, outdir)  TLC simulates MC_sim (decision history on) and prints the history at
                                      every call boundary; the longest history of each behaviour is kept.
  to_scenario(hist)                   one behaviour -> harness script (API calls, I/O decisions, broker
                                      packets injected lazily right before the read that consumes them) plus
                                      the specification's projected client state at every call boundary.
  compare(hist, trace_lines)          the recorded run vs the specification: results and state snapshots
                                      at every call boundary, I/O mismatches reported by the script director.
"""
import json
import os
import re
import subprocess
import sys

TLC = ("java -Xss512m -Xmx4g -XX:+UseParallelGC -cp /opt/veriftools/tla/tla2tools.jar:"
       "/opt/veriftools/tla/CommunityModules-deps.jar tlc2.TLC")
ROOT = os.path.dirname(os.path.dirname(os.path.abspath(__file__)))
SPEC = os.path.join(ROOT, "spec")
BIG = 1 << 20


def b(s):
    return list(s.encode())


CFG = {"rx": 128, "tx": 1152, "client_id": b("test"), "ka": 0, "sei": 300}


# ---- concrete packets ------------------------------------------------------------------------
def varint(v):
    out = []
    while True:
        d = v % 128
        v //= 128
        out.append(d | (0x80 if v else 0))
        if not v:
            return out


def frame(first, body):
    return [first] + varint(len(body)) + body


def enc_packet(p, serial):
    t = p["t"]
    if t == "CONNACK":
        props = [0x21, p["rm"] >> 8, p["rm"] & 255] if p.get("rm", 0) > 0 else []
        if p.get("bad"):
            props = [0x21, 0, 0]          # Receive Maximum 0: a protocol error the client must refuse
        return frame(0x20, [1 if p["sp"] else 0, p["rc"]] + varint(len(props)) + props)
    if t in ("PUBACK", "PUBREC", "PUBREL", "PUBCOMP"):
        first = {"PUBACK": 0x40, "PUBREC": 0x50, "PUBREL": 0x62, "PUBCOMP": 0x70}[t]
        return frame(first, [p["id"] >> 8, p["id"] & 255, p["rc"]])
    if t in ("SUBACK", "UNSUBACK"):
        return frame(0x90 if t == "SUBACK" else 0xB0, [p["id"] >> 8, p["id"] & 255, 0, p["rc"]])
    if t == "PUBLISH":
        topic = b("in/%d" % p["id"])
        body = [len(topic) >> 8, len(topic) & 255] + topic
        if p["q"] > 0:
            body += [p["id"] >> 8, p["id"] & 255]
        body += [0] + b("x%d" % serial)
        return frame(0x30 | (p["q"] << 1), body)
    if t == "DISCONNECT":
        return [0xE0, 0x00]
    raise ValueError(t)


def reads_for(pkt):
    """number of read() calls the client needs for one packet (header byte, each length byte, body)"""
    i = 1
    while pkt[i] & 0x80:
        i += 1
    nlen = i
    return 1 + nlen + (1 if len(pkt) > 1 + nlen else 0)


def call_step(op):
    nm, m = op["nm"], op["m"]
    if nm == "pub":
        return {"e": "publish", "qos": 1 if op["k"] == "P1" else 2, "topic": b("t/%d" % m),
                "payload": b("m%d:payload" % m)}
    if nm == "q0":
        return {"e": "publish", "qos": 0, "topic": b("q0/%d" % m), "payload": b("zero%d" % m)}
    if nm == "sub":
        if op["k"] == "SUB":
            return {"e": "subscribe", "filters": [{"topic": b("f/%d/#" % m), "qos": 1}]}
        return {"e": "unsubscribe", "topics": [b("u/%d" % m)]}
    if nm == "disc":
        return {"e": "disconnect"}
    return {"e": nm}


PEND = {"aw": {"e": "wpend"}, "cw": {"e": "wpend"}, "dw": {"e": "wpend"}, "qw": {"e": "wpend"},
        "af": {"e": "f", "r": "pend"}, "cf": {"e": "f", "r": "pend"}, "df": {"e": "f", "r": "pend"},
        "qf": {"e": "f", "r": "pend"}, "ar": {"e": "rpend"}, "cr": {"e": "rpend"}}


def to_scenario(hist, name, drain=True):
    steps = []
    prev_pc = "idle"
    serial = 0
    for h in hist:
        a, p = h["a"], h["p"]
        if a == "conn":
            steps.append({"e": "conn"})
        elif a == "call":
            steps.append(call_step(p))
        elif a == "w":
            steps.append({"e": "w", "acc": 1 if p else BIG})
        elif a == "f":
            steps.append({"e": "f", "r": "ok"})
        elif a == "ferr":
            steps.append({"e": "f", "r": "err"})
        elif a == "werr":
            steps.append({"e": "werr"})
        elif a == "wzero":
            steps.append({"e": "wzero"})
        elif a == "r":
            serial += 1
            pkt = enc_packet(p, serial)
            steps.append({"e": "b", "bytes": pkt})
            steps += [{"e": "r", "got": BIG}] * reads_for(pkt)
        elif a == "eof":
            steps.append({"e": "reof"})
        elif a == "rerr":
            steps.append({"e": "rerr"})
        elif a == "cancel":
            steps.append(PEND[prev_pc])
            steps.append({"e": "cancel"})
        elif a == "drop":
            steps.append({"e": "drop"})
        elif a in ("b", "lose", "sessionloss"):
            pass
        else:
            raise ValueError(a)
        prev_pc = h["s"]["pc"]
    cfg = dict(CFG, name=name)
    return {"cfg": cfg, "steps": steps, "drain": drain}


# ---- comparison ----------------------------------------------------------------------------------
ST = {0: "W", 1: "F", 2: "S"}
CTL = {2: "PUBACK", 3: "PUBREC", 4: "PUBCOMP", 5: "PINGREQ"}


def kind_of(b0):
    t = b0 >> 4
    if t == 3:
        return "P1" if (b0 >> 1) & 3 == 1 else "P2"
    return {8: "SUB", 10: "UNS"}.get(t, "?")


def impl_proj(snap, obs):
    return {
        "gen": snap["gen"], "sp": snap["sp"], "nid": snap["nid"], "quota": snap["quota"], "maxq": snap["maxq"],
        "sids": sorted(snap["sids"]),
        "ret": [[e[0], kind_of(e[5]), ST[e[3]], 1 if e[4] > 0 else 0, bool(e[5] & 8)] for e in snap["ret"]],
        "rel": [[e[0], ST[e[2]], 1 if e[3] > 0 else 0] for e in snap["rel"]],
        "ctl": [[CTL[e[0]], e[1], e[2], ST[e[3]], 1 if e[4] > 0 else 0] for e in snap["ctl"]],
        "live": obs["live"],
    }


def spec_proj(s):
    return {
        "gen": s["gen"], "sp": s["sp"], "nid": s["nid"], "quota": s["quota"], "maxq": s["maxq"],
        "sids": sorted(s["sids"]),
        "ret": [list(e) for e in s["ret"]], "rel": [list(e) for e in s["rel"]], "ctl": [list(e) for e in s["ctl"]],
        "live": s["live"] and s["up"],
    }


def compare(hist, lines):
    """returns list of mismatch descriptions (empty = conforms)"""
    client_actions = [h for h in hist if h["a"] not in ("b", "lose", "sessionloss")]
    bounds = [h for h in client_actions if h["s"]["pc"] == "idle"]
    events = []
    for ln, line in enumerate(lines, 1):
        e = json.loads(line)
        if e["e"] == "drainstart":
            break
        if e["e"] in ("ret", "cancel", "drop"):
            events.append((ln, e))
        if e["e"] in ("mismatch", "departed"):
            return ["line %d: script/I-O mismatch: %s" % (ln, e["msg"])]
        if e["e"] in ("panic", "watchdog"):
            return ["line %d: %s" % (ln, e["e"])]
    out = []
    if len(events) < len(bounds):
        out.append("the run has %d call boundaries, the behaviour %d" % (len(events), len(bounds)))
    for (ln, e), h in zip(events, bounds):
        want = spec_proj(h["s"])
        got = impl_proj(e["snap"], e["obs"])
        a = h["a"]
        if a == "drop":
            if e["e"] != "drop":
                out.append("line %d: expected drop, got %s" % (ln, e["e"]))
            want["live"] = False
        elif a == "cancel":
            if e["e"] != "cancel":
                out.append("line %d: expected cancel, got %s" % (ln, e["e"]))
            if not h["s"]["up"]:
                want["live"] = False
        else:
            last = h["s"]["last"]
            if e["e"] != "ret":
                out.append("line %d: expected a return (%s), got %s" % (ln, last, e["e"]))
            else:
                r = e["r"]
                if (r["k"], r["v"]) != (last["k"], last["v"]):
                    out.append("line %d: result %s:%s, specification %s:%s" % (ln, r["k"], r["v"], last["k"], last["v"]))
        for k in want:
            if k in ("quota", "maxq") and (want["gen"] == 0 or not want["sp"]):
                continue        # until a CONNACK has been activated the code holds u16::MAX, the model Cap
            if want[k] != got[k]:
                out.append("line %d (%s): %s = %s, specification %s" % (ln, a, k, got[k], want[k]))
        if out:
            break
    return out


# ---- generation ------------------------------------------------------------------------------------
def gen(cfg_file, seed, num, depth, workdir, timeout=600):
    os.makedirs(workdir, exist_ok=True)
    for f in ("Minimq.tla", "MC_flow.tla", "Quota.tla", "MC_sim.tla", cfg_file):
        subprocess.run(["cp", os.path.join(SPEC, f), workdir], check=True)
    cmd = "timeout %d %s -workers 1 -seed %d -simulate num=%d -depth %d -metadir %s/meta -cleanup -noGenerateSpecTE -config %s MC_sim.tla" % (
        timeout, TLC, seed, num, depth, workdir, cfg_file)
    r = subprocess.run(cmd, shell=True, cwd=workdir, capture_output=True, text=True)
    best = {}
    viol = None
    for line in r.stdout.splitlines():
        m = re.match(r'^"@H (\d+) (.*)"$', line.strip())
        if m:
            t = int(m.group(1))
            h = json.loads(m.group(2).encode().decode("unicode_escape"))
            if t not in best or len(h) > len(best[t]):
                best[t] = h
        elif "is violated" in line or "Error:" in line:
            viol = (viol or "") + line + "\n"
    subprocess.run(["rm", "-rf", os.path.join(workdir, "meta")])
    return [best[k] for k in sorted(best)], viol, r.stdout[-2000:] if not best else ""


def run_hists(hists, outdir, mqv, name, drain=True):
    """replay behaviours against the real crate; returns (trace path, [(index, mismatches)], steps)"""
    os.makedirs(outdir, exist_ok=True)
    scen = os.path.join(outdir, name + ".ndjson")
    with open(scen, "w") as f:
        for i, h in enumerate(hists):
            f.write(json.dumps(to_scenario(h, "%s-%d" % (name, i), drain)) + "\n")
    trace = os.path.join(outdir, name + ".trace")
    r = subprocess.run([mqv, "run", scen, trace], capture_output=True, text=True)
    if r.returncode != 0:
        raise RuntimeError("harness failed: " + r.stderr[-2000:])
    os.remove(scen)
    bad, steps, i, cur = [], 0, 0, []

    def finish(lines, i):
        mm = compare(hists[i], lines)
        if mm:
            bad.append((i, mm))

    with open(trace) as f:
        for line in f:
            if '"e":"cfg"' in line and cur:
                finish(cur, i)
                i += 1
                cur = []
            cur.append(line)
    if cur:
        finish(cur, i)
    return trace, bad, sum(len(h) for h in hists)


def main():
    if sys.argv[1] == "--hists":
        hists = json.load(open(sys.argv[2]))
        lo, hi = int(sys.argv[5]), int(sys.argv[6])
        trace, bad, steps = run_hists(hists[lo:hi], sys.argv[3], sys.argv[4], "cover")
        for i, mm in bad[:8]:
            print("NONCONFORMANT behaviour %d:" % (lo + i), mm[:3])
        print("behaviours=%d steps=%d nonconformant=%d" % (hi - lo, steps, len(bad)))
        return
    cfg_file, seed, num, depth, outdir, mqv = sys.argv[1], int(sys.argv[2]), int(sys.argv[3]), int(sys.argv[4]), sys.argv[5], sys.argv[6]
    hists, viol, raw = gen(cfg_file, seed, num, depth, os.path.join(outdir, "tlc"))
    if viol:
        print("MODEL-VIOLATION", viol)
    if not hists:
        print("no behaviours", raw)
        sys.exit(2)
    scen = os.path.join(outdir, "replay.ndjson")
    with open(scen, "w") as f:
        for i, h in enumerate(hists):
            f.write(json.dumps(to_scenario(h, "replay-%d-%d" % (seed, i))) + "\n")
    json.dump(hists, open(os.path.join(outdir, "hists.json"), "w"))
    trace = os.path.join(outdir, "replay.trace")
    r = subprocess.run([mqv, "run", scen, trace], capture_output=True, text=True)
    print(r.stderr.strip())
    runs, cur = [], []
    for line in open(trace):
        if '"e":"cfg"' in line and cur:
            runs.append(cur)
            cur = []
        cur.append(line)
    runs.append(cur)
    bad = 0
    steps = 0
    for i, (h, lines) in enumerate(zip(hists, runs)):
        steps += len(h)
        mm = compare(h, lines)
        if mm:
            bad += 1
            if bad <= 5:
                print("NONCONFORMANT behaviour %d:" % i, mm[:3])
    print("behaviours=%d steps=%d nonconformant=%d" % (len(hists), steps, bad))


if __name__ == "__main__":
    main()
