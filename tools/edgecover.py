#!/usr/bin/env python3
"""Edge cover of the specification's bounded state graph: one implementation test per transition.

TLC explores a configuration of spec/MC_flow.tla exhaustively and dumps the labelled state graph
(-dump dot,actionlabels).  This tool parses it, computes a set of paths from the initial state that
together traverse EVERY edge, and turns each path into a behaviour in the format tools/replay.py
understands (decision + projected client state after it), so it can be replayed against the real
crate and compared state by state.
"""
import collections
import json
import os
import re
import subprocess
import sys

sys.path.insert(0, os.path.dirname(os.path.abspath(__file__)))
import tlaparse  # noqa: E402

TLC = ("java -Xss512m -Xmx12g -XX:+UseParallelGC -cp /opt/veriftools/tla/tla2tools.jar:"
       "/opt/veriftools/tla/CommunityModules-deps.jar tlc2.TLC")
ROOT = os.path.dirname(os.path.dirname(os.path.abspath(__file__)))
SPEC = os.path.join(ROOT, "spec")

NODE = re.compile(r'^(-?\d+) \[label="(.*?)",(?:style|tooltip)', re.S)
EDGE = re.compile(r'^(-?\d+) -> (-?\d+) \[label="(.*)",color=')


def unesc(s):
    return s.replace("\\n", "\n").replace('\\"', '"').replace("\\\\", "\\")


def proj(c):
    c = tlaparse.unset(c)
    return {"pc": c["pc"]["t"], "last": c["last"], "live": c["live"], "up": c["up"], "sp": c["sp"], "gen": c["gen"],
            "nid": c["nid"], "quota": c["quota"], "maxq": c["maxq"], "sids": c["sids"],
            "ret": [[e["id"], e["k"], e["st"], e["w"], e["dup"]] for e in c["ret"]],
            "rel": [[e["id"], e["st"], e["w"]] for e in c["rel"]],
            "ctl": [[e["a"], e["id"], e["rc"], e["st"], e["w"]] for e in c["ctl"]]}


def dump(cfg_file, workdir, workers=8, timeout=1800):
    os.makedirs(workdir, exist_ok=True)
    for f in ("Minimq.tla", "MC_flow.tla", "Quota.tla", cfg_file):
        subprocess.run(["cp", os.path.join(SPEC, f), workdir], check=True)
    dot = os.path.join(workdir, "graph.dot")
    cmd = "timeout %d %s -workers %d -dump dot,actionlabels %s -metadir %s/meta -cleanup -noGenerateSpecTE -config %s MC_flow.tla" % (
        timeout, TLC, workers, dot, workdir, cfg_file)
    r = subprocess.run(cmd, shell=True, cwd=workdir, capture_output=True, text=True)
    subprocess.run(["rm", "-rf", os.path.join(workdir, "meta")])
    m = re.search(r"(\d+) states generated, (\d+) distinct states found", r.stdout)
    if "Error:" in r.stdout or not m:
        raise RuntimeError("TLC failed: " + r.stdout[-3000:])
    return dot, int(m.group(1)), int(m.group(2))


def load(dot):
    nodes, edges, init = {}, [], None
    with open(dot) as f:
        for line in f:
            m = EDGE.match(line)
            if m:
                edges.append((m.group(1), unesc(m.group(3)), m.group(2)))
                continue
            m = NODE.match(line)
            if m and m.group(1) not in nodes:
                label = unesc(m.group(2))
                segs = ("\n" + label).split("\n/\\ ")
                seg = [s for s in segs if s.startswith("c = ")]
                nseg = [s for s in segs if s.startswith("n = ")]
                node = proj(tlaparse.parse_value(seg[0][4:]))
                node["_b2c"] = tlaparse.unset(tlaparse.parse_value(nseg[0][4:]))["b2c"]
                nodes[m.group(1)] = node
                if init is None and "style = filled" in line:
                    init = m.group(1)
    return nodes, edges, init


def decision(label, src, st):
    """edge label -> (a, p) in the vocabulary of replay.py; st carries the op counters"""
    name, args = tlaparse.parse_call(label)
    pc = src["pc"]
    if name == "AppConnect":
        return "conn", []
    if name in ("AppPublish", "AppSubscribe"):
        m = st["ops"] + 1
        if src["live"]:
            st["ops"] += 1
        return "call", {"nm": "pub" if name == "AppPublish" else "sub", "k": args[0], "m": m}
    if name == "AppPublish0":
        m = 100 + st["q0"]
        st["q0"] += 1
        return "call", {"nm": "q0", "k": "P0", "m": m}
    if name == "AppCall":
        op = args[0]
        if op["nm"] in ("pub", "sub"):
            if src["live"]:
                st["ops"] += 1
        if op["nm"] == "q0":
            st["q0"] += 1
        return "call", op
    if name in ("AppPoll", "AppRecv", "AppDrive", "AppDisconnect"):
        return "call", {"nm": {"AppPoll": "poll", "AppRecv": "recv", "AppDrive": "drive", "AppDisconnect": "disc"}[name], "k": "", "m": 0}
    if name == "Cancel":
        return "cancel", []
    if name == "DropHandle":
        return "drop", []
    if name in ("IoWrite", "ConnWrite", "DiscWrite", "Q0Write"):
        return "w", args[0]
    if name in ("IoFlush", "ConnFlush"):
        return "f", []
    if name in ("DiscFlush", "Q0Flush"):
        return ("f" if args[0] else "ferr"), []
    if name in ("IoFail", "ConnFail"):
        return ("werr" if pc in ("aw", "cw") else "ferr"), []
    if name in ("DiscWriteFail", "Q0WriteFail"):
        return "werr", []
    if name in ("IoZero", "Q0Zero", "DiscZero"):
        return "wzero", []
    if name == "IoRead":
        return "r", args[0]
    if name == "IoReadFail":
        return args[0], []
    if name == "ConnAck":
        return "r", {"t": "CONNACK", "sp": args[0], "rc": 0, "rm": args[1]}
    if name == "ConnAckBad":
        return "r", {"t": "CONNACK", "sp": args[0], "rc": 0, "rm": 0, "bad": True}
    if name == "ConnOther":
        return "r", args[0]
    if name == "LoseInconsistent":
        return "lose", []
    if name == "SessionLoss":
        return "sessionloss", []
    if name.startswith("Broker"):
        return "b", args
    return "?", label


def cover(nodes, edges, init, max_len=160, max_paths=None, radius=6):
    out = collections.defaultdict(list)
    for i, (u, lab, v) in enumerate(edges):
        out[u].append(i)
    # BFS tree
    parent = {init: None}
    depth = {init: 0}
    q = collections.deque([init])
    while q:
        u = q.popleft()
        for i in out[u]:
            v = edges[i][2]
            if v not in parent:
                parent[v] = i
                depth[v] = depth[u] + 1
                q.append(v)

    def tree_path(u):
        p = []
        while parent[u] is not None:
            p.append(parent[u])
            u = edges[parent[u]][0]
        return p[::-1]

    uncovered = set(i for i in range(len(edges)) if edges[i][0] in parent)
    order = sorted(uncovered, key=lambda i: depth[edges[i][0]])
    paths = []
    for seed in order:
        if seed not in uncovered:
            continue
        path = tree_path(edges[seed][0]) + [seed]
        for i in path:
            uncovered.discard(i)
        cur = edges[seed][2]
        while len(path) < max_len:
            cand = [i for i in out[cur] if i in uncovered]
            if cand:
                i = cand[0]
            else:
                # nearest node (<= 4 steps) with an uncovered outgoing edge
                found = None
                seen = {cur: []}
                dq = collections.deque([cur])
                while dq and found is None:
                    x = dq.popleft()
                    if len(seen[x]) >= radius:
                        continue
                    for j in out[x]:
                        y = edges[j][2]
                        if y in seen:
                            continue
                        seen[y] = seen[x] + [j]
                        if any(k in uncovered for k in out[y]):
                            found = seen[y]
                            break
                        dq.append(y)
                if not found:
                    break
                path += found
                cur = edges[found[-1]][2]
                continue
            path.append(i)
            uncovered.discard(i)
            cur = edges[i][2]
        paths.append(path)
        if max_paths and len(paths) >= max_paths:
            break
    return paths, len(uncovered)


def to_hist(path, nodes, edges):
    st = {"ops": 0, "q0": 0}
    hist = []
    for i in path:
        u, lab, v = edges[i]
        a, p = decision(lab, nodes[u], st)
        if a == "?":
            # TLC labels actions under a state-dependent quantifier just "Next": classify by effect
            cu = {k: x for k, x in nodes[u].items() if k != "_b2c"}
            cv = {k: x for k, x in nodes[v].items() if k != "_b2c"}
            if cu == cv:
                a, p = "b", [lab]                  # broker / environment only
            elif nodes[u]["pc"] == "ar" and nodes[u]["_b2c"] and nodes[v]["_b2c"] == nodes[u]["_b2c"][1:]:
                a, p = "r", nodes[u]["_b2c"][0]    # IoRead(Head(b2c))
            else:
                raise ValueError("unknown action label %s at pc %s" % (lab, nodes[u]["pc"]))
        hist.append({"a": a, "p": p, "s": {k: x for k, x in nodes[v].items() if k != "_b2c"}})
    return hist


def main():
    cfg, workdir = sys.argv[1], sys.argv[2]
    dot, gen, distinct = dump(cfg, workdir)
    nodes, edges, init = load(dot)
    paths, left = cover(nodes, edges, init)
    hists = [to_hist(p, nodes, edges) for p in paths]
    json.dump(hists, open(os.path.join(workdir, "hists.json"), "w"))
    print("states=%d edges=%d paths=%d steps=%d uncovered=%d" % (len(nodes), len(edges), len(paths), sum(map(len, paths)), left))
    os.remove(dot)


if __name__ == "__main__":
    main()
