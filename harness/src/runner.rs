//! Executes one scenario against the real `minimq` session: a manual executor, a transport whose
//! every call is decided by a `Director`, and a recorder that writes one NDJSON event per step.

use std::cell::RefCell;
use std::collections::VecDeque;
use std::future::{Future, poll_fn};
use std::panic::{AssertUnwindSafe, catch_unwind};
use std::pin::pin;
use std::rc::Rc;
use std::sync::Arc;
use std::task::{Context, Poll, Wake, Waker};

use embedded_io_async::{ErrorKind, ErrorType, Read, Write};
use minimq::{
    Buffers, ConfigBuilder, ConnectEvent, Connection, Disconnect, Error, Op, PeerError, Property,
    PubError, Publication, QoS, ReasonCode, ResourceError, RetainHandling, Session,
    SubscriptionOptions, TopicFilter, Will,
};
use serde_json::{Value, json};

use crate::types::{Cfg, Filter, Prop, Step};
use crate::vclock;

// ------------------------------------------------------------------------------------------
// Director interface

#[derive(Debug, Clone, PartialEq)]
pub enum IoDec {
    /// write: accept this many bytes; read: hand over this many bytes; flush: ignored
    Ready(usize),
    Pending,
    Eof,
    Err,
    /// write only: Ok(0) for a non-empty buffer
    Zero,
}

#[derive(Debug, Clone)]
pub enum PendDec {
    Resume,
    Cancel,
    Adv(u64),
    Inject(Vec<u8>),
    /// time passes and, at that very instant, bytes arrive: the client is polled only afterwards
    AdvInject(u64, Vec<u8>),
    Mismatch(String),
}

#[derive(Debug, Clone)]
pub enum TopDec {
    Call(Step),
    Adv(u64),
    Inject(Vec<u8>),
    DropConn,
    End,
    Mismatch(String),
    /// record a marker event (drain start / end, twin marks) and ask again
    Note(Value),
    /// between connections: set the packet identifier counter through the verification hook
    SetNextId(u16),
}

#[derive(Debug, Clone, Default)]
pub struct View {
    pub now_ms: u64,
    pub inbound_avail: usize,
    pub has_conn: bool,
    pub live: bool,
    pub op: String,
    pub wakes: Vec<u64>,
    pub snap: Option<Value>,
}

pub trait Director {
    fn write(&mut self, view: &View, offered: &[u8]) -> IoDec;
    fn read(&mut self, view: &View, want: usize) -> IoDec;
    fn flush(&mut self, view: &View) -> IoDec;
    fn pending(&mut self, view: &View) -> PendDec;
    fn top(&mut self, view: &View) -> TopDec;
    /// bytes the transport accepted (lets a broker model follow the client)
    fn wrote(&mut self, _bytes: &[u8]) {}
    fn flushed(&mut self) {}
    fn returned(&mut self, _op: &str, _result: &Value, _obs: &Value) {}
    fn new_transport(&mut self) {}
    /// The client polled `read` again without yielding to the executor (a timer that is already
    /// due keeps it spinning): how far does wall-clock time move meanwhile?
    fn spin_adv(&mut self, _view: &View, _n: u32) -> Option<u64> {
        None
    }
    /// ... or does a packet from the broker arrive meanwhile?
    fn spin_inject(&mut self, _view: &View, _n: u32) -> Option<Vec<u8>> {
        None
    }
}

// ------------------------------------------------------------------------------------------
// Shared context

pub struct Ctx {
    pub dir: Box<dyn Director>,
    pub out: Vec<String>,
    pub inbound: VecDeque<u8>,
    pub io: [u64; 3],
    pub op_calls: u64,
    pub faults: usize,
    pub watchdog: u64,
    pub tripped: bool,
    pub mismatch: Option<String>,
    pub op: String,
    pub has_conn: bool,
    pub live: bool,
    pub last_snap: Option<Value>,
    pub spin: u32,
}

pub type Shared = Rc<RefCell<Ctx>>;

impl Ctx {
    fn view(&self) -> View {
        View {
            now_ms: vclock::now_ms(),
            inbound_avail: self.inbound.len(),
            has_conn: self.has_conn,
            live: self.live,
            op: self.op.clone(),
            wakes: vclock::take_wakes_ms(),
            snap: self.last_snap.clone(),
        }
    }

    pub fn rec(&mut self, event: Value) {
        self.out.push(event.to_string());
    }

    fn read_pending(&mut self, want: usize) {
        self.rec(json!({"e":"rpend","want":want}));
        self.spin += 1;
        if self.spin >= 2 {
            let view = self.view();
            if let Some(bytes) = self.dir.spin_inject(&view, self.spin) {
                self.inbound.extend(bytes.iter().copied());
                self.rec(json!({"e":"b","bytes":bytes}));
            } else if let Some(to) = self.dir.spin_adv(&view, self.spin) {
                vclock::set_ms(to);
                self.rec(json!({"e":"adv","to":vclock::now_ms(),"spin":true}));
            }
        }
    }

    /// The kind of the next injected transport fault: cycles through every kind a transport may
    /// report (the kind is not logged: no listed property lets the client's reaction depend on it).
    fn fault_kind(&mut self) -> ErrorKind {
        const KINDS: [ErrorKind; 12] = [
            ErrorKind::ConnectionReset,
            ErrorKind::BrokenPipe,
            ErrorKind::Interrupted,
            ErrorKind::TimedOut,
            ErrorKind::Other,
            ErrorKind::ConnectionAborted,
            ErrorKind::NotConnected,
            ErrorKind::WriteZero,
            ErrorKind::OutOfMemory,
            ErrorKind::InvalidData,
            ErrorKind::Unsupported,
            ErrorKind::PermissionDenied,
        ];
        self.faults += 1;
        KINDS[(self.faults - 1) % KINDS.len()]
    }

    fn count(&mut self, kind: usize) -> bool {
        self.io[kind] += 1;
        self.op_calls += 1;
        if self.op_calls > self.watchdog {
            self.tripped = true;
        }
        self.tripped
    }
}

// ------------------------------------------------------------------------------------------
// Transport

pub struct SimIo {
    ctx: Shared,
}

impl ErrorType for SimIo {
    type Error = ErrorKind;
}

impl Read for SimIo {
    async fn read(&mut self, buf: &mut [u8]) -> Result<usize, ErrorKind> {
        poll_fn(|_cx| {
            let mut guard = self.ctx.borrow_mut();
            let ctx = &mut *guard;
            if ctx.mismatch.is_some() {
                return Poll::Pending;
            }
            if ctx.count(0) {
                return Poll::Ready(Err(ErrorKind::Other));
            }
            let view = ctx.view();
            let want = buf.len();
            match ctx.dir.read(&view, want) {
                IoDec::Ready(k) => {
                    let k = k.min(want).min(ctx.inbound.len());
                    if k == 0 {
                        ctx.read_pending(want);
                        return Poll::Pending;
                    }
                    ctx.spin = 0;
                    let bytes: Vec<u8> = ctx.inbound.drain(..k).collect();
                    buf[..k].copy_from_slice(&bytes);
                    ctx.rec(json!({"e":"r","want":want,"got":k,"bytes":bytes}));
                    Poll::Ready(Ok(k))
                }
                IoDec::Pending | IoDec::Zero => {
                    ctx.read_pending(want);
                    Poll::Pending
                }
                IoDec::Eof => {
                    ctx.rec(json!({"e":"reof","want":want}));
                    Poll::Ready(Ok(0))
                }
                IoDec::Err => {
                    ctx.rec(json!({"e":"rerr","want":want}));
                    Poll::Ready(Err(ctx.fault_kind()))
                }
            }
        })
        .await
    }
}

impl Write for SimIo {
    async fn write(&mut self, buf: &[u8]) -> Result<usize, ErrorKind> {
        poll_fn(|_cx| {
            let mut guard = self.ctx.borrow_mut();
            let ctx = &mut *guard;
            if ctx.mismatch.is_some() {
                return Poll::Pending;
            }
            if ctx.count(1) {
                return Poll::Ready(Err(ErrorKind::Other));
            }
            let view = ctx.view();
            let len = buf.len();
            match ctx.dir.write(&view, buf) {
                IoDec::Ready(k) => {
                    let k = k.clamp(1, len.max(1)).min(len);
                    if len == 0 {
                        ctx.rec(json!({"e":"w","len":0,"acc":0,"bytes":[]}));
                        return Poll::Ready(Ok(0));
                    }
                    ctx.dir.wrote(&buf[..k]);
                    ctx.rec(json!({"e":"w","len":len,"acc":k,"bytes":buf[..k]}));
                    Poll::Ready(Ok(k))
                }
                IoDec::Zero => {
                    ctx.rec(json!({"e":"w","len":len,"acc":0,"bytes":[]}));
                    Poll::Ready(Ok(0))
                }
                IoDec::Pending => {
                    ctx.rec(json!({"e":"wpend","len":len}));
                    Poll::Pending
                }
                IoDec::Eof | IoDec::Err => {
                    ctx.rec(json!({"e":"werr","len":len}));
                    Poll::Ready(Err(ctx.fault_kind()))
                }
            }
        })
        .await
    }

    async fn flush(&mut self) -> Result<(), ErrorKind> {
        poll_fn(|_cx| {
            let mut guard = self.ctx.borrow_mut();
            let ctx = &mut *guard;
            if ctx.mismatch.is_some() {
                return Poll::Pending;
            }
            if ctx.count(2) {
                return Poll::Ready(Err(ErrorKind::Other));
            }
            let view = ctx.view();
            match ctx.dir.flush(&view) {
                IoDec::Ready(_) | IoDec::Zero => {
                    ctx.dir.flushed();
                    ctx.rec(json!({"e":"f","r":"ok"}));
                    Poll::Ready(Ok(()))
                }
                IoDec::Pending => {
                    ctx.rec(json!({"e":"f","r":"pend"}));
                    Poll::Pending
                }
                IoDec::Eof | IoDec::Err => {
                    ctx.rec(json!({"e":"f","r":"err"}));
                    Poll::Ready(Err(ctx.fault_kind()))
                }
            }
        })
        .await
    }
}

// ------------------------------------------------------------------------------------------
// Executor

struct NoopWaker;

impl Wake for NoopWaker {
    fn wake(self: Arc<Self>) {}
}

enum Outcome<T> {
    Ready(T),
    Cancelled,
    Aborted,
}

fn drive<F: Future>(ctx: &Shared, fut: F) -> Outcome<F::Output> {
    let waker = Waker::from(Arc::new(NoopWaker));
    let mut cx = Context::from_waker(&waker);
    let mut fut = pin!(fut);
    ctx.borrow_mut().op_calls = 0;
    loop {
        vclock::reset_spin();
        if let Poll::Ready(value) = fut.as_mut().poll(&mut cx) {
            return Outcome::Ready(value);
        }
        let mut guard = ctx.borrow_mut();
        let c = &mut *guard;
        if c.tripped || c.mismatch.is_some() {
            return Outcome::Aborted;
        }
        c.spin = 0;
        let view = c.view();
        c.rec(json!({"e":"yield","wake":view.wakes.first().map(|w| *w as i64).unwrap_or(-1)}));
        match c.dir.pending(&view) {
            PendDec::Resume => {}
            PendDec::Cancel => {
                return Outcome::Cancelled;
            }
            PendDec::Adv(to) => {
                vclock::set_ms(to);
                c.rec(json!({"e":"adv","to":vclock::now_ms(),"spin":false}));
            }
            PendDec::Inject(bytes) => {
                c.inbound.extend(bytes.iter().copied());
                c.rec(json!({"e":"b","bytes":bytes}));
            }
            PendDec::AdvInject(to, bytes) => {
                vclock::set_ms(to);
                c.rec(json!({"e":"adv","to":vclock::now_ms(),"spin":false}));
                c.inbound.extend(bytes.iter().copied());
                c.rec(json!({"e":"b","bytes":bytes}));
            }
            PendDec::Mismatch(msg) => {
                c.mismatch = Some(msg);
                return Outcome::Aborted;
            }
        }
    }
}

// ------------------------------------------------------------------------------------------
// Conversions

fn s(bytes: &[u8]) -> &str {
    core::str::from_utf8(bytes).expect("scenario strings must be UTF-8")
}

pub fn to_property<'a>(p: &'a Prop) -> Property<'a> {
    match p.id {
        0x01 => Property::PayloadFormatIndicator(p.n as u8),
        0x02 => Property::MessageExpiryInterval(p.n as u32),
        0x03 => Property::ContentType(s(&p.s)),
        0x08 => Property::ResponseTopic(s(&p.s)),
        0x09 => Property::CorrelationData(&p.s),
        0x0B => Property::SubscriptionIdentifier(p.n as u32),
        0x11 => Property::SessionExpiryInterval(p.n as u32),
        0x12 => Property::AssignedClientIdentifier(s(&p.s)),
        0x13 => Property::ServerKeepAlive(p.n as u16),
        0x15 => Property::AuthenticationMethod(s(&p.s)),
        0x16 => Property::AuthenticationData(&p.s),
        0x17 => Property::RequestProblemInformation(p.n as u8),
        0x18 => Property::WillDelayInterval(p.n as u32),
        0x19 => Property::RequestResponseInformation(p.n as u8),
        0x1A => Property::ResponseInformation(s(&p.s)),
        0x1C => Property::ServerReference(s(&p.s)),
        0x1F => Property::ReasonString(s(&p.s)),
        0x21 => Property::ReceiveMaximum(p.n as u16),
        0x22 => Property::TopicAliasMaximum(p.n as u16),
        0x23 => Property::TopicAlias(p.n as u16),
        0x24 => Property::MaximumQoS(p.n as u8),
        0x25 => Property::RetainAvailable(p.n as u8),
        0x26 => Property::UserProperty(s(&p.s), s(&p.t)),
        0x27 => Property::MaximumPacketSize(p.n as u32),
        0x28 => Property::WildcardSubscriptionAvailable(p.n as u8),
        0x29 => Property::SubscriptionIdentifierAvailable(p.n as u8),
        0x2A => Property::SharedSubscriptionAvailable(p.n as u8),
        other => panic!("unknown property id {other}"),
    }
}

pub fn from_property(p: &Property<'_>) -> Value {
    let (id, n, a, b): (u8, u64, &[u8], &[u8]) = match p {
        Property::PayloadFormatIndicator(v) => (0x01, *v as u64, &[], &[]),
        Property::MessageExpiryInterval(v) => (0x02, *v as u64, &[], &[]),
        Property::ContentType(v) => (0x03, 0, v.as_bytes(), &[]),
        Property::ResponseTopic(v) => (0x08, 0, v.as_bytes(), &[]),
        Property::CorrelationData(v) => (0x09, 0, v, &[]),
        Property::SubscriptionIdentifier(v) => (0x0B, *v as u64, &[], &[]),
        Property::SessionExpiryInterval(v) => (0x11, *v as u64, &[], &[]),
        Property::AssignedClientIdentifier(v) => (0x12, 0, v.as_bytes(), &[]),
        Property::ServerKeepAlive(v) => (0x13, *v as u64, &[], &[]),
        Property::AuthenticationMethod(v) => (0x15, 0, v.as_bytes(), &[]),
        Property::AuthenticationData(v) => (0x16, 0, v, &[]),
        Property::RequestProblemInformation(v) => (0x17, *v as u64, &[], &[]),
        Property::WillDelayInterval(v) => (0x18, *v as u64, &[], &[]),
        Property::RequestResponseInformation(v) => (0x19, *v as u64, &[], &[]),
        Property::ResponseInformation(v) => (0x1A, 0, v.as_bytes(), &[]),
        Property::ServerReference(v) => (0x1C, 0, v.as_bytes(), &[]),
        Property::ReasonString(v) => (0x1F, 0, v.as_bytes(), &[]),
        Property::ReceiveMaximum(v) => (0x21, *v as u64, &[], &[]),
        Property::TopicAliasMaximum(v) => (0x22, *v as u64, &[], &[]),
        Property::TopicAlias(v) => (0x23, *v as u64, &[], &[]),
        Property::MaximumQoS(v) => (0x24, *v as u64, &[], &[]),
        Property::RetainAvailable(v) => (0x25, *v as u64, &[], &[]),
        Property::UserProperty(k, v) => (0x26, 0, k.as_bytes(), v.as_bytes()),
        Property::MaximumPacketSize(v) => (0x27, *v as u64, &[], &[]),
        Property::WildcardSubscriptionAvailable(v) => (0x28, *v as u64, &[], &[]),
        Property::SubscriptionIdentifierAvailable(v) => (0x29, *v as u64, &[], &[]),
        Property::SharedSubscriptionAvailable(v) => (0x2A, *v as u64, &[], &[]),
    };
    prop_tla_parts(id, n, a, b)
}

/// TLC integers are 32-bit signed: four-byte property values travel as their big-endian bytes
/// in `s` (with `n` = 0); every field is always present (TLC has no notion of an absent field).
fn prop_tla_parts(id: u8, n: u64, a: &[u8], b: &[u8]) -> Value {
    if matches!(id, 0x02 | 0x11 | 0x18 | 0x27) {
        json!({"id": id, "n": 0, "s": (n as u32).to_be_bytes(), "t": []})
    } else {
        json!({"id": id, "n": n, "s": a, "t": b})
    }
}

pub fn prop_tla(p: &Prop) -> Value {
    prop_tla_parts(p.id, p.n, &p.s, &p.t)
}

fn props_tla(props: &[Prop]) -> Vec<Value> {
    props.iter().map(prop_tla).collect()
}

fn opt_num<T: Into<i64>>(v: Option<T>) -> i64 {
    v.map(Into::into).unwrap_or(-1)
}

/// The call event as the TLA+ side reads it (no nulls, no absent fields, no 64-bit numbers).
pub fn call_tla(step: &Step, hn: usize) -> Value {
    match step {
        Step::Publish { qos, topic, payload, retain, props, corr, payload_fails, corr_first: _ } => json!({
            "e":"publish","call":true,"hn":hn,"qos":qos,"topic":topic,"payload":payload,
            "retain":retain,"props":props_tla(props),"hascorr":corr.is_some(),
            "corr":corr.clone().unwrap_or_default(),"pfail":payload_fails}),
        Step::Subscribe { filters, props } => json!({
            "e":"subscribe","call":true,"hn":hn,"props":props_tla(props),
            "filters":filters.iter().map(|f| json!({"topic":f.topic,"qos":f.qos,"nl":f.nl as u8,"rap":f.rap as u8,"rh":f.rh})).collect::<Vec<_>>()}),
        Step::Unsubscribe { topics, props } => json!({
            "e":"unsubscribe","call":true,"hn":hn,"props":props_tla(props),"topics":topics}),
        Step::Poll {} => json!({"e":"poll","call":true,"hn":hn}),
        Step::Recv {} => json!({"e":"recv","call":true,"hn":hn}),
        Step::Drive {} => json!({"e":"drive","call":true,"hn":hn}),
        Step::Disconnect { reason, props } => json!({
            "e":"disconnect","call":true,"hn":hn,"reason":opt_num(*reason),
            "hasprops":props.is_some(),"props":props_tla(props.as_deref().unwrap_or(&[]))}),
        other => json!({"e":"badcall","what":format!("{other:?}")}),
    }
}

pub fn cfg_tla(cfg: &Cfg) -> Value {
    let will = match &cfg.will {
        Some(w) => json!({"topic":w.topic,"payload":w.payload,"qos":w.qos,"retain":w.retain as u8,"props":props_tla(&w.props)}),
        None => json!({"topic":[],"payload":[],"qos":0,"retain":0,"props":[]}),
    };
    let (user, pass) = match &cfg.auth {
        Some(a) => (a.user.clone(), a.pass.clone()),
        None => (vec![], vec![]),
    };
    json!({
        "name": cfg.name, "rx": cfg.rx, "tx": cfg.tx, "client_id": cfg.client_id, "ka": cfg.ka,
        "sei": cfg.sei.to_be_bytes(), "downgrade": cfg.downgrade,
        "haswill": cfg.will.is_some(), "will": will,
        "hasauth": cfg.auth.is_some(), "user": user, "pass": pass,
        "first_id": cfg.first_id,
    })
}

fn qos(q: u8) -> QoS {
    match q {
        0 => QoS::AtMostOnce,
        1 => QoS::AtLeastOnce,
        _ => QoS::ExactlyOnce,
    }
}

pub fn err_json(err: &Error<ErrorKind>) -> Value {
    match err {
        Error::NotReady => json!({"err":"NotReady"}),
        Error::Disconnected => json!({"err":"Disconnected"}),
        Error::InvalidRequest => json!({"err":"InvalidRequest"}),
        Error::Peer(PeerError::Rejected(code)) => {
            json!({"err":"Rejected","code":u8::from(*code)})
        }
        Error::Peer(PeerError::InvalidPacket) => json!({"err":"InvalidPacket"}),
        Error::Peer(_) => json!({"err":"Peer"}),
        Error::Resource(ResourceError::BufferTooSmall) => json!({"err":"BufferTooSmall"}),
        Error::Resource(ResourceError::PacketTooLarge) => json!({"err":"PacketTooLarge"}),
        Error::Resource(ResourceError::InflightExhausted) => json!({"err":"InflightExhausted"}),
        Error::Resource(_) => json!({"err":"Resource"}),
        Error::Transport(_) => json!({"err":"Transport"}),
        Error::WriteZero => json!({"err":"WriteZero"}),
        _ => json!({"err":"Other"}),
    }
}

fn status_char(session: &Session<'_>, op: &Op) -> &'static str {
    let (p, c, i) = (
        session.is_pending(op),
        session.is_complete(op),
        session.is_invalidated(op),
    );
    match (p, c, i) {
        (true, false, false) => "p",
        (false, true, false) => "c",
        (false, false, true) => "i",
        _ => "x",
    }
}

pub fn snap_json(session: &Session<'_>) -> Value {
    let snap = session.verif_snapshot();
    let arena = session.verif_tx_arena();
    let ret: Vec<Value> = snap
        .outbound
        .retained
        .iter()
        .map(|e| {
            json!([
                e.packet_id,
                e.offset,
                e.len,
                e.state,
                e.written,
                arena.get(e.offset).copied().unwrap_or(0)
            ])
        })
        .collect();
    let rel: Vec<Value> = snap
        .outbound
        .release
        .iter()
        .map(|e| json!([e.packet_id, e.reason, e.state, e.written]))
        .collect();
    let ctl: Vec<Value> = snap
        .outbound
        .control
        .iter()
        .map(|e| json!([e.kind, e.packet_id, e.reason, e.state, e.written]))
        .collect();
    json!({
        "nid": snap.next_packet_id,
        "gen": snap.generation,
        "sp": snap.session_present,
        "resumed": snap.session_resumed,
        "quota": snap.send_quota,
        "maxq": snap.max_send_quota,
        "maxpkt": opt_num(snap.maximum_packet_size.map(|v| v.min(i32::MAX as u32))),
        "maxqos": opt_num(snap.max_qos),
        "ka": snap.keepalive_ms,
        "np": opt_num(snap.next_ping_ms.map(|v| v as i64)),
        "pt": opt_num(snap.ping_timeout_ms.map(|v| v as i64)),
        "sids": snap.inbound_qos2.iter().copied().collect::<Vec<u16>>(),
        "used": snap.outbound.used,
        "cap": snap.outbound.capacity,
        "ret": ret,
        "rel": rel,
        "ctl": ctl,
        "rd": [snap.reader_read_bytes as i64, opt_num(snap.reader_packet_length.map(|v| v as i64))],
    })
}

fn obs_session(ctx: &Shared, session: &Session<'_>, handles: &[Op]) -> Value {
    let c = ctx.borrow();
    let h: Vec<&str> = handles.iter().map(|op| status_char(session, op)).collect();
    json!({
        "live": false,
        "cp": [false, false, false],
        "q": session.is_publish_quiescent(),
        "ev": "N",
        "h": h,
        "io": c.io,
        "t": vclock::now_ms(),
    })
}

fn obs_conn(ctx: &Shared, conn: &Connection<'_, '_, SimIo>, handles: &[Op]) -> Value {
    let c = ctx.borrow();
    let h: Vec<&str> = handles
        .iter()
        .map(|op| status_char(conn.session(), op))
        .collect();
    // The connection-level status answers must agree with the session-level ones.
    for op in handles {
        assert_eq!(conn.is_pending(op), conn.session().is_pending(op));
        assert_eq!(conn.is_complete(op), conn.session().is_complete(op));
        assert_eq!(conn.is_invalidated(op), conn.session().is_invalidated(op));
    }
    json!({
        "live": conn.is_connected(),
        "cp": [
            conn.can_publish(QoS::AtMostOnce),
            conn.can_publish(QoS::AtLeastOnce),
            conn.can_publish(QoS::ExactlyOnce)
        ],
        "q": conn.session().is_publish_quiescent(),
        "ev": match conn.connect_event() { ConnectEvent::Connected => "C", ConnectEvent::Reconnected => "R" },
        "h": h,
        "io": c.io,
        "t": vclock::now_ms(),
    })
}

// ---- C20: what do the reply helpers put on the wire? ----------------------------------------

/// Always-ready loopback transport for the side session that publishes a reply.
struct Loop {
    rx: VecDeque<u8>,
    tx: Vec<u8>,
}

impl ErrorType for Loop {
    type Error = ErrorKind;
}

impl Read for Loop {
    async fn read(&mut self, buf: &mut [u8]) -> Result<usize, ErrorKind> {
        let n = buf.len().min(self.rx.len());
        for b in buf.iter_mut().take(n) {
            *b = self.rx.pop_front().unwrap();
        }
        Ok(n)
    }
}

impl Write for Loop {
    async fn write(&mut self, buf: &[u8]) -> Result<usize, ErrorKind> {
        self.tx.extend_from_slice(buf);
        Ok(buf.len())
    }

    async fn flush(&mut self) -> Result<(), ErrorKind> {
        Ok(())
    }
}

fn block_on<F: Future>(fut: F) -> F::Output {
    let waker = Waker::from(Arc::new(NoopWaker));
    let mut cx = Context::from_waker(&waker);
    let mut fut = pin!(fut);
    loop {
        if let Poll::Ready(v) = fut.as_mut().poll(&mut cx) {
            return v;
        }
    }
}

/// Publish `publication` at QoS 0 through a fresh side session and return the PUBLISH bytes.
fn wire_image(publication: Publication<'_, &[u8]>) -> Value {
    let mut rx = vec![0u8; 64];
    let mut tx = vec![0u8; 70_000];
    let mut session = Session::new(
        ConfigBuilder::new(Buffers::new(&mut rx, &mut tx))
            .client_id("side")
            .unwrap()
            .keepalive_interval(0),
    );
    let io = Loop { rx: VecDeque::from(vec![0x20, 0x03, 0x00, 0x00, 0x00]), tx: Vec::new() };
    let result = block_on(async {
        let mut conn = session.connect(io).await.map_err(|_| ())?;
        conn.publish(publication).await.map_err(|_| ())?;
        Ok::<Vec<u8>, ()>(conn.into_inner().tx)
    });
    match result {
        Ok(all) => {
            // skip the CONNECT of the side session
            let mut i = 1;
            let mut len = 0usize;
            let mut mult = 1usize;
            loop {
                let b = all[i];
                len += (b as usize & 0x7F) * mult;
                mult *= 128;
                i += 1;
                if b & 0x80 == 0 {
                    break;
                }
            }
            json!({"ok": true, "bytes": all[i + len..]})
        }
        Err(()) => json!({"ok": false, "bytes": []}),
    }
}

fn owned_probe<const T: usize, const C: usize>(msg: &minimq::InboundPublish<'_>) -> Value {
    match msg.reply_owned::<T, C>() {
        Ok(Some(target)) => {
            let image = wire_image(target.publication(&b"reply"[..]));
            json!({"t": T, "c": C, "r": "some", "topic": target.topic().as_bytes(),
                   "hascd": target.correlation_data().is_some(),
                   "cd": target.correlation_data().unwrap_or(&[]), "pub": image})
        }
        Ok(None) => json!({"t": T, "c": C, "r": "none", "topic": [], "hascd": false, "cd": [], "pub": {"ok": false, "bytes": []}}),
        Err(_) => json!({"t": T, "c": C, "r": "err", "topic": [], "hascd": false, "cd": [], "pub": {"ok": false, "bytes": []}}),
    }
}

fn reply_probe(msg: &minimq::InboundPublish<'_>) -> Value {
    let user = [Property::UserProperty("rk", "rv")];
    let plain = match msg.reply(&b"reply"[..]) {
        Some(p) => wire_image(p),
        None => json!({"ok": false, "bytes": []}),
    };
    let decorated = match msg.reply(&b"reply"[..]) {
        Some(p) => wire_image(p.properties(&user).qos(QoS::AtMostOnce)),
        None => json!({"ok": false, "bytes": []}),
    };
    // two layers of caller properties: the second list replaces the first, the correlation stays
    let first = [Property::UserProperty("layer", "one"), Property::ContentType("text/plain")];
    let layered = match msg.reply(&b"reply"[..]) {
        Some(p) => wire_image(p.properties(&first).properties(&user).qos(QoS::AtMostOnce)),
        None => json!({"ok": false, "bytes": []}),
    };
    json!({
        "offered": msg.reply(&b""[..]).is_some(),
        "plain": plain,
        "decorated": decorated,
        "layered": layered,
        "owned": [owned_probe::<0, 0>(msg), owned_probe::<4, 2>(msg), owned_probe::<8, 4>(msg),
                  owned_probe::<16, 8>(msg), owned_probe::<64, 16>(msg), owned_probe::<200, 64>(msg)],
    })
}

fn msg_json(msg: &minimq::InboundPublish<'_>) -> Value {
    let props: Vec<Value> = msg
        .properties()
        .iter()
        .map(|p| match p {
            Ok(p) => from_property(&p),
            Err(_) => json!({"id": 0, "n": 0, "s": [], "t": []}),
        })
        .collect();
    let reply = msg.reply(&b""[..]).is_some();
    json!({
        "topic": msg.topic().as_bytes(),
        "payload": msg.payload(),
        "qos": msg.qos() as u8,
        "retain": msg.retained(),
        "props": props,
        "hasrt": msg.response_topic().is_some(),
        "rt": msg.response_topic().map(|t| t.as_bytes().to_vec()).unwrap_or_default(),
        "hascd": msg.correlation_data().is_some(),
        "cd": msg.correlation_data().map(|d| d.to_vec()).unwrap_or_default(),
        "reply": reply,
        "probe": reply_probe(msg),
    })
}

/// Uniform result record for the TLA+ side: k = "ok" | "err" | "cancel", v = detail,
/// code = reason code or -1, h = handle index or -1, hasmsg + msg.
fn norm_result(r: &Value) -> Value {
    let empty_msg = json!({"topic":[],"payload":[],"qos":0,"retain":false,"props":[],
        "hasrt":false,"rt":[],"hascd":false,"cd":[],"reply":false,"probe":{}});
    let h = r.get("h").cloned().unwrap_or(json!(-1));
    if let Some(ok) = r.get("ok") {
        let hasmsg = r.get("msg").is_some();
        json!({"k":"ok","v":ok,"code":-1,"h":h,"hasmsg":hasmsg,
               "msg": r.get("msg").cloned().unwrap_or(empty_msg)})
    } else if let Some(err) = r.get("err") {
        json!({"k":"err","v":err,"code":r.get("code").cloned().unwrap_or(json!(-1)),"h":h,
               "hasmsg":false,"msg":empty_msg})
    } else {
        json!({"k":"cancel","v":"cancel","code":-1,"h":h,"hasmsg":false,"msg":empty_msg})
    }
}

// ------------------------------------------------------------------------------------------
// Scenario execution

pub struct RunResult {
    pub lines: Vec<String>,
    pub mismatch: Option<String>,
    pub panicked: Option<String>,
    pub watchdog: bool,
}

pub fn run_scenario(cfg: &Cfg, dir: Box<dyn Director>) -> RunResult {
    vclock::reset();
    let ctx: Shared = Rc::new(RefCell::new(Ctx {
        dir,
        out: Vec::new(),
        inbound: VecDeque::new(),
        io: [0; 3],
        op_calls: 0,
        faults: 0,
        watchdog: cfg.watchdog,
        tripped: false,
        mismatch: None,
        op: String::new(),
        has_conn: false,
        live: false,
        last_snap: None,
        spin: 0,
    }));
    ctx.borrow_mut().rec(json!({"e":"cfg","cfg":cfg_tla(cfg)}));
    let result = catch_unwind(AssertUnwindSafe(|| run_inner(cfg, &ctx)));
    let mut panicked = None;
    if let Err(payload) = result {
        let msg = payload
            .downcast_ref::<String>()
            .cloned()
            .or_else(|| payload.downcast_ref::<&str>().map(|s| s.to_string()))
            .unwrap_or_else(|| "panic".to_string());
        // A poisoned borrow cannot happen with RefCell; a dangling one can: take what we can.
        if let Ok(mut c) = ctx.try_borrow_mut() {
            let op = c.op.clone();
            c.rec(json!({"e":"panic","msg":msg,"op":op}));
        }
        panicked = Some(msg);
    }
    let mut c = match ctx.try_borrow_mut() {
        Ok(c) => c,
        Err(_) => {
            return RunResult {
                lines: vec![json!({"e":"cfg","cfg":cfg_tla(cfg)}).to_string(),
                            json!({"e":"panic","msg":"panic inside transport","op":""}).to_string()],
                mismatch: None,
                panicked,
                watchdog: false,
            };
        }
    };
    if c.tripped {
        let op = c.op.clone();
        c.rec(json!({"e":"watchdog","op":op}));
    }
    if let Some(m) = c.mismatch.clone() {
        c.rec(json!({"e":"mismatch","msg":m}));
    }
    c.rec(json!({"e":"end"}));
    RunResult {
        lines: std::mem::take(&mut c.out),
        mismatch: c.mismatch.clone(),
        panicked,
        watchdog: c.tripped,
    }
}

fn top_view(ctx: &Shared) -> View {
    ctx.borrow().view()
}

fn run_inner(cfg: &Cfg, ctx: &Shared) {
    let rx: &'static mut [u8] = Box::leak(vec![0u8; cfg.rx].into_boxed_slice());
    let tx: &'static mut [u8] = Box::leak(vec![0u8; cfg.tx].into_boxed_slice());
    let mut builder = ConfigBuilder::new(Buffers::new(rx, tx))
        .keepalive_interval(cfg.ka)
        .session_expiry_interval(cfg.sei);
    builder = match builder.client_id(s(&cfg.client_id)) {
        Ok(b) => b,
        Err(e) => {
            ctx.borrow_mut()
                .rec(json!({"e":"cfgerr","what":"client_id","err":format!("{e:?}")}));
            return;
        }
    };
    if cfg.downgrade {
        builder = builder.autodowngrade_qos();
    }
    if let Some(auth) = &cfg.auth {
        let user: &'static str = Box::leak(s(&auth.user).to_string().into_boxed_str());
        let pass: &'static [u8] = Box::leak(auth.pass.clone().into_boxed_slice());
        builder = builder.auth(user, pass).unwrap();
    }
    if let Some(will) = &cfg.will {
        let specs: &'static [Prop] = Box::leak(will.props.clone().into_boxed_slice());
        let props: &'static [Property<'static>] = Box::leak(
            specs
                .iter()
                .map(to_property)
                .collect::<Vec<_>>()
                .into_boxed_slice(),
        );
        let payload: &'static [u8] = Box::leak(will.payload.clone().into_boxed_slice());
        match Will::new(s(&will.topic), payload, props) {
            Ok(mut w) => {
                w = w.qos(qos(will.qos));
                if will.retain {
                    w = w.retained();
                }
                builder = builder.will(w).unwrap();
            }
            Err(e) => {
                ctx.borrow_mut()
                    .rec(json!({"e":"cfgerr","what":"will","err":format!("{e:?}")}));
                return;
            }
        }
    }
    let mut session = Session::new(builder);
    if let Some(id) = core::num::NonZeroU16::new(cfg.first_id) {
        session.verif_set_next_packet_id(id);
    }
    let mut handles: Vec<Op> = Vec::new();

    loop {
        {
            let mut c = ctx.borrow_mut();
            c.has_conn = false;
            c.live = false;
            c.op.clear();
            c.last_snap = Some(snap_json(&session));
            if c.tripped || c.mismatch.is_some() {
                return;
            }
        }
        let view = top_view(ctx);
        let dec = ctx.borrow_mut().dir.top(&view);
        match dec {
            TopDec::End => return,
            TopDec::Mismatch(m) => {
                ctx.borrow_mut().mismatch = Some(m);
                return;
            }
            TopDec::Adv(to) => {
                vclock::set_ms(to);
                ctx.borrow_mut().rec(json!({"e":"adv","to":vclock::now_ms(),"spin":false}));
            }
            TopDec::Inject(bytes) => {
                // nothing is listening: bytes for a transport that does not exist are dropped
                let _ = bytes;
            }
            TopDec::DropConn => {
                ctx.borrow_mut().mismatch = Some("drop without connection".into());
                return;
            }
            TopDec::Note(v) => ctx.borrow_mut().rec(v),
            TopDec::SetNextId(id) => {
                if let Some(nz) = core::num::NonZeroU16::new(id) {
                    session.verif_set_next_packet_id(nz);
                    ctx.borrow_mut().rec(json!({"e":"setid","id":id}));
                }
            }
            TopDec::Call(Step::Conn { healthy }) => {
                {
                    let mut c = ctx.borrow_mut();
                    c.inbound.clear();
                    c.io = [0; 3];
                    c.op = "conn".into();
                    c.dir.new_transport();
                    c.rec(json!({"e":"conn","healthy":healthy}));
                }
                let io = SimIo { ctx: ctx.clone() };
                let outcome = drive(ctx, session.connect(io));
                match outcome {
                    Outcome::Ready(Ok(mut conn)) => {
                        let obs = obs_conn(ctx, &conn, &handles);
                        let snap = snap_json(conn.session());
                        let r = json!({"ok": match conn.connect_event() { ConnectEvent::Connected => "Connected", ConnectEvent::Reconnected => "Reconnected" }});
                        {
                            let mut c = ctx.borrow_mut();
                            c.dir.returned("conn", &r, &obs);
                            c.rec(json!({"e":"ret","op":"conn","r":norm_result(&r),"obs":obs,"snap":snap}));
                        }
                        conn_loop(ctx, &mut conn, &mut handles);
                        drop(conn);
                        if ctx.borrow().tripped || ctx.borrow().mismatch.is_some() {
                            return;
                        }
                        let obs = obs_session(ctx, &session, &handles);
                        let snap = snap_json(&session);
                        ctx.borrow_mut()
                            .rec(json!({"e":"drop","obs":obs,"snap":snap}));
                    }
                    Outcome::Ready(Err(err)) => {
                        let obs = obs_session(ctx, &session, &handles);
                        let snap = snap_json(&session);
                        let r = err_json(&err);
                        let mut c = ctx.borrow_mut();
                        c.dir.returned("conn", &r, &obs);
                        c.rec(json!({"e":"ret","op":"conn","r":norm_result(&r),"obs":obs,"snap":snap}));
                    }
                    Outcome::Cancelled => {
                        let obs = obs_session(ctx, &session, &handles);
                        let snap = snap_json(&session);
                        let mut c = ctx.borrow_mut();
                        c.dir.returned("conn", &json!({"cancelled":true}), &obs);
                        c.rec(json!({"e":"cancel","op":"conn","obs":obs,"snap":snap}));
                    }
                    Outcome::Aborted => return,
                }
            }
            TopDec::Call(other) => {
                ctx.borrow_mut().mismatch =
                    Some(format!("call {other:?} without a connection"));
                return;
            }
        }
    }
}

fn conn_loop(ctx: &Shared, conn: &mut Connection<'_, 'static, SimIo>, handles: &mut Vec<Op>) {
    loop {
        {
            let mut c = ctx.borrow_mut();
            c.has_conn = true;
            c.live = conn.is_connected();
            c.op.clear();
            c.last_snap = Some(snap_json(conn.session()));
            if c.tripped || c.mismatch.is_some() {
                return;
            }
        }
        let view = top_view(ctx);
        let dec = ctx.borrow_mut().dir.top(&view);
        let step = match dec {
            TopDec::End => return,
            TopDec::DropConn => return,
            TopDec::Note(v) => {
                ctx.borrow_mut().rec(v);
                continue;
            }
            TopDec::SetNextId(_) => {
                ctx.borrow_mut().mismatch = Some("setid while a handle is held".into());
                return;
            }
            TopDec::Mismatch(m) => {
                ctx.borrow_mut().mismatch = Some(m);
                return;
            }
            TopDec::Adv(to) => {
                vclock::set_ms(to);
                ctx.borrow_mut().rec(json!({"e":"adv","to":vclock::now_ms(),"spin":false}));
                continue;
            }
            TopDec::Inject(bytes) => {
                let mut c = ctx.borrow_mut();
                c.inbound.extend(bytes.iter().copied());
                c.rec(json!({"e":"b","bytes":bytes}));
                continue;
            }
            TopDec::Call(step) => step,
        };
        let opname: &str = match &step {
            Step::Publish { .. } => "publish",
            Step::Subscribe { .. } => "subscribe",
            Step::Unsubscribe { .. } => "unsubscribe",
            Step::Poll {} => "poll",
            Step::Recv {} => "recv",
            Step::Drive {} => "drive",
            Step::Disconnect { .. } => "disconnect",
            Step::Conn { .. } => {
                // implicit drop of the handle, then the caller sees the Conn step again
                ctx.borrow_mut().mismatch = Some("conn while a handle is held".into());
                return;
            }
            other => {
                ctx.borrow_mut().mismatch = Some(format!("not a call: {other:?}"));
                return;
            }
        };
        {
            let mut c = ctx.borrow_mut();
            c.op = opname.to_string();
            c.rec(call_tla(&step, handles.len()));
        }
        // Each arm produces `Outcome<(result json, Option<Op>)>`.
        let outcome: Outcome<(Value, Option<Op>)> = match &step {
            Step::Publish {
                qos: q,
                topic,
                payload,
                retain,
                props,
                corr,
                payload_fails,
                corr_first,
            } => {
                let props: Vec<Property<'_>> = props.iter().map(to_property).collect();
                let mut publication = Publication::bytes(s(topic), payload).qos(qos(*q));
                if *corr_first {
                    if let Some(corr) = corr {
                        publication = publication.correlate(corr);
                    }
                    publication = publication.properties(&props);
                } else {
                    if !props.is_empty() {
                        publication = publication.properties(&props);
                    }
                    if let Some(corr) = corr {
                        publication = publication.correlate(corr);
                    }
                }
                if *retain {
                    publication = publication.retain();
                }
                if *payload_fails {
                    let failing = Publication::new(s(topic), |_buf: &mut [u8]| Err::<usize, u8>(7))
                        .qos(qos(*q));
                    let failing = if props.is_empty() { failing } else { failing.properties(&props) };
                    let failing = if *retain { failing.retain() } else { failing };
                    match drive(ctx, conn.publish(failing)) {
                        Outcome::Ready(Ok(Some(op))) => Outcome::Ready((json!({"ok":"op"}), Some(op))),
                        Outcome::Ready(Ok(None)) => Outcome::Ready((json!({"ok":"none"}), None)),
                        Outcome::Ready(Err(PubError::Session(e))) => Outcome::Ready((err_json(&e), None)),
                        Outcome::Ready(Err(PubError::Payload(_))) => Outcome::Ready((json!({"err":"Payload"}), None)),
                        Outcome::Cancelled => Outcome::Cancelled,
                        Outcome::Aborted => Outcome::Aborted,
                    }
                } else {
                    match drive(ctx, conn.publish(publication)) {
                        Outcome::Ready(Ok(Some(op))) => Outcome::Ready((json!({"ok":"op"}), Some(op))),
                        Outcome::Ready(Ok(None)) => Outcome::Ready((json!({"ok":"none"}), None)),
                        Outcome::Ready(Err(PubError::Session(e))) => Outcome::Ready((err_json(&e), None)),
                        Outcome::Ready(Err(PubError::Payload(_))) => Outcome::Ready((json!({"err":"Payload"}), None)),
                        Outcome::Cancelled => Outcome::Cancelled,
                        Outcome::Aborted => Outcome::Aborted,
                    }
                }
            }
            Step::Subscribe { filters, props } => {
                let props: Vec<Property<'_>> = props.iter().map(to_property).collect();
                let filters: Vec<TopicFilter<'_>> = filters.iter().map(to_filter).collect();
                match drive(ctx, conn.subscribe(&filters, &props)) {
                    Outcome::Ready(Ok(op)) => Outcome::Ready((json!({"ok":"op"}), Some(op))),
                    Outcome::Ready(Err(e)) => Outcome::Ready((err_json(&e), None)),
                    Outcome::Cancelled => Outcome::Cancelled,
                    Outcome::Aborted => Outcome::Aborted,
                }
            }
            Step::Unsubscribe { topics, props } => {
                let props: Vec<Property<'_>> = props.iter().map(to_property).collect();
                let topics: Vec<&str> = topics.iter().map(|t| s(t)).collect();
                match drive(ctx, conn.unsubscribe(&topics, &props)) {
                    Outcome::Ready(Ok(op)) => Outcome::Ready((json!({"ok":"op"}), Some(op))),
                    Outcome::Ready(Err(e)) => Outcome::Ready((err_json(&e), None)),
                    Outcome::Cancelled => Outcome::Cancelled,
                    Outcome::Aborted => Outcome::Aborted,
                }
            }
            Step::Poll {} => {
                let fut = async {
                    match conn.poll().await {
                        Ok(Some(msg)) => json!({"ok":"msg","msg":msg_json(&msg)}),
                        Ok(None) => json!({"ok":"none"}),
                        Err(e) => err_json(&e),
                    }
                };
                match drive(ctx, fut) {
                    Outcome::Ready(v) => Outcome::Ready((v, None)),
                    Outcome::Cancelled => Outcome::Cancelled,
                    Outcome::Aborted => Outcome::Aborted,
                }
            }
            Step::Recv {} => {
                let fut = async {
                    match conn.recv().await {
                        Ok(msg) => json!({"ok":"msg","msg":msg_json(&msg)}),
                        Err(e) => err_json(&e),
                    }
                };
                match drive(ctx, fut) {
                    Outcome::Ready(v) => Outcome::Ready((v, None)),
                    Outcome::Cancelled => Outcome::Cancelled,
                    Outcome::Aborted => Outcome::Aborted,
                }
            }
            Step::Drive {} => {
                let fut = async {
                    match conn.drive().await {
                        Ok(Some(msg)) => json!({"ok":"msg","msg":msg_json(&msg)}),
                        Ok(None) => json!({"ok":"none"}),
                        Err(e) => err_json(&e),
                    }
                };
                match drive(ctx, fut) {
                    Outcome::Ready(v) => Outcome::Ready((v, None)),
                    Outcome::Cancelled => Outcome::Cancelled,
                    Outcome::Aborted => Outcome::Aborted,
                }
            }
            Step::Disconnect { reason, props } => {
                let owned: Vec<Property<'_>> = props
                    .as_ref()
                    .map(|p| p.iter().map(to_property).collect())
                    .unwrap_or_default();
                let mut packet = match reason {
                    None => Disconnect::success(),
                    Some(code) => Disconnect::with_reason(ReasonCode::from(*code)),
                };
                if props.is_some() {
                    packet = packet.with_properties(&owned);
                }
                let plain = reason.is_none() && props.is_none();
                let outcome = if plain {
                    drive(ctx, conn.disconnect())
                } else {
                    drive(ctx, conn.disconnect_with(packet))
                };
                match outcome {
                    Outcome::Ready(Ok(())) => Outcome::Ready((json!({"ok":"none"}), None)),
                    Outcome::Ready(Err(e)) => Outcome::Ready((err_json(&e), None)),
                    Outcome::Cancelled => Outcome::Cancelled,
                    Outcome::Aborted => Outcome::Aborted,
                }
            }
            _ => unreachable!(),
        };
        match outcome {
            Outcome::Ready((mut r, op)) => {
                r["h"] = json!(-1);
                if let Some(op) = op {
                    r["h"] = json!(handles.len());
                    handles.push(op);
                }
                let obs = obs_conn(ctx, conn, handles);
                let snap = snap_json(conn.session());
                let mut c = ctx.borrow_mut();
                c.dir.returned(opname, &r, &obs);
                c.rec(json!({"e":"ret","op":opname,"r":norm_result(&r),"obs":obs,"snap":snap}));
            }
            Outcome::Cancelled => {
                let obs = obs_conn(ctx, conn, handles);
                let snap = snap_json(conn.session());
                let mut c = ctx.borrow_mut();
                c.dir.returned(opname, &json!({"cancelled":true}), &obs);
                c.rec(json!({"e":"cancel","op":opname,"obs":obs,"snap":snap}));
            }
            Outcome::Aborted => return,
        }
    }
}

fn to_filter(f: &Filter) -> TopicFilter<'_> {
    let mut options = SubscriptionOptions::default().maximum_qos(qos(f.qos));
    if f.nl {
        options = options.ignore_local_messages();
    }
    if f.rap {
        options = options.retain_as_published();
    }
    options = options.retain_behavior(match f.rh {
        0 => RetainHandling::Immediately,
        1 => RetainHandling::IfSubscriptionDoesNotExist,
        _ => RetainHandling::Never,
    });
    TopicFilter::new(s(&f.topic)).options(options)
}
