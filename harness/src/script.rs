//! Director that replays a fixed list of steps (hand-written, ported from the repository's tests,
//! generated from TLC behaviours, or extracted from an earlier recorded trace).

use std::collections::VecDeque;

use crate::runner::{Director, IoDec, PendDec, TopDec, View};
use crate::types::Step;

pub struct ScriptDirector {
    steps: VecDeque<Step>,
    /// when the script ends while a future is pending: cancel it (true) or report a mismatch
    pub cancel_at_end: bool,
    pending_mismatch: Option<String>,
}

impl ScriptDirector {
    pub fn new(steps: Vec<Step>) -> Self {
        Self {
            steps: steps.into(),
            cancel_at_end: true,
            pending_mismatch: None,
        }
    }

    fn io_kind(step: &Step) -> Option<char> {
        match step {
            Step::W { .. } | Step::Wpend {} | Step::Werr {} | Step::Wzero {} => Some('w'),
            Step::R { .. } | Step::Rpend {} | Step::Reof {} | Step::Rerr {} => Some('r'),
            Step::F { .. } => Some('f'),
            _ => None,
        }
    }

    fn io(&mut self, kind: char, want: usize) -> Result<IoDec, String> {
        let Some(next) = self.steps.front() else {
            return Ok(IoDec::Pending);
        };
        match Self::io_kind(next) {
            Some(k) if k == kind => {}
            Some(k) => {
                return Err(format!(
                    "script expects I/O '{k}' but the client called '{kind}'"
                ));
            }
            // an environment step (adv, b, cancel) comes first: stay pending, the executor
            // consumes it
            None => {
                if next.is_call() || matches!(next, Step::Drop {}) {
                    return Err(format!(
                        "script expects the call to have returned ({next:?}) but the client called '{kind}'"
                    ));
                }
                return Ok(IoDec::Pending);
            }
        }
        let step = self.steps.pop_front().unwrap();
        Ok(match step {
            Step::W { acc } => IoDec::Ready(acc),
            Step::R { got, want: expected } => {
                if expected != 0 && expected != want {
                    return Err(format!(
                        "the client asks read() for {want} bytes, the specification's reader for {expected}"
                    ));
                }
                IoDec::Ready(got)
            }
            Step::F { r } => match r.as_str() {
                "ok" => IoDec::Ready(0),
                "pend" => IoDec::Pending,
                _ => IoDec::Err,
            },
            Step::Wpend {} | Step::Rpend {} => IoDec::Pending,
            Step::Werr {} | Step::Rerr {} => IoDec::Err,
            Step::Wzero {} => IoDec::Zero,
            Step::Reof {} => IoDec::Eof,
            _ => unreachable!(),
        })
    }
}

impl Director for ScriptDirector {
    fn write(&mut self, _view: &View, _offered: &[u8]) -> IoDec {
        match self.io('w', 0) {
            Ok(dec) => dec,
            Err(msg) => {
                self.pending_mismatch = Some(msg);
                IoDec::Pending
            }
        }
    }

    fn read(&mut self, _view: &View, _want: usize) -> IoDec {
        match self.io('r', _want) {
            Ok(dec) => dec,
            Err(msg) => {
                self.pending_mismatch = Some(msg);
                IoDec::Pending
            }
        }
    }

    fn flush(&mut self, _view: &View) -> IoDec {
        match self.io('f', 0) {
            Ok(dec) => dec,
            Err(msg) => {
                self.pending_mismatch = Some(msg);
                IoDec::Pending
            }
        }
    }

    fn pending(&mut self, _view: &View) -> PendDec {
        if let Some(msg) = self.pending_mismatch.take() {
            return PendDec::Mismatch(msg);
        }
        let Some(next) = self.steps.front() else {
            return if self.cancel_at_end {
                PendDec::Cancel
            } else {
                PendDec::Mismatch("script ended while a call is pending".into())
            };
        };
        if Self::io_kind(next).is_some() {
            return PendDec::Resume;
        }
        match self.steps.pop_front().unwrap() {
            Step::Adv { to } => {
                // bytes that arrive at the very instant the clock reaches `to`
                if let Some(Step::B { .. }) = self.steps.front() {
                    if let Some(Step::B { bytes }) = self.steps.pop_front() {
                        return PendDec::AdvInject(to, bytes);
                    }
                }
                PendDec::Adv(to)
            }
            Step::B { bytes } => PendDec::Inject(bytes),
            Step::Cancel {} => PendDec::Cancel,
            other => PendDec::Mismatch(format!(
                "script expects {other:?} but the call is still pending"
            )),
        }
    }

    fn spin_adv(&mut self, _view: &View, _n: u32) -> Option<u64> {
        if let Some(Step::Adv { to }) = self.steps.front() {
            let to = *to;
            self.steps.pop_front();
            return Some(to);
        }
        None
    }

    fn spin_inject(&mut self, _view: &View, _n: u32) -> Option<Vec<u8>> {
        if let Some(Step::B { .. }) = self.steps.front() {
            if let Some(Step::B { bytes }) = self.steps.pop_front() {
                return Some(bytes);
            }
        }
        None
    }

    fn top(&mut self, _view: &View) -> TopDec {
        if let Some(msg) = self.pending_mismatch.take() {
            return TopDec::Mismatch(msg);
        }
        let Some(next) = self.steps.pop_front() else {
            return TopDec::End;
        };
        match next {
            Step::Adv { to } => TopDec::Adv(to),
            Step::B { bytes } => TopDec::Inject(bytes),
            Step::Drop {} => TopDec::DropConn,
            Step::Setid { id } => TopDec::SetNextId(id),
            step if step.is_call() => TopDec::Call(step),
            other => TopDec::Mismatch(format!(
                "script expects {other:?} but no call is pending"
            )),
        }
    }
}

/// Script first, then a benign continuation driven by the random director's broker model
/// (reconnect with the session present, answer everything, poll until quiescent).
pub struct ChainDirector {
    script: ScriptDirector,
    tail: crate::rnd::RandomDirector,
    in_tail: bool,
    /// the client departed from the script (conformance mismatch): reported as a marker event,
    /// then the benign continuation takes over so that the property monitors still see how the
    /// session behaves from here
    note: Option<String>,
}

impl ChainDirector {
    pub fn new(steps: Vec<Step>, tail: crate::rnd::RandomDirector) -> Self {
        let mut script = ScriptDirector::new(steps);
        script.cancel_at_end = true;
        Self {
            script,
            tail,
            in_tail: false,
            note: None,
        }
    }
}

impl Director for ChainDirector {
    fn write(&mut self, view: &View, offered: &[u8]) -> IoDec {
        if self.in_tail {
            self.tail.write(view, offered)
        } else {
            self.script.write(view, offered)
        }
    }

    fn read(&mut self, view: &View, want: usize) -> IoDec {
        if self.in_tail {
            self.tail.read(view, want)
        } else {
            self.script.read(view, want)
        }
    }

    fn flush(&mut self, view: &View) -> IoDec {
        if self.in_tail {
            self.tail.flush(view)
        } else {
            self.script.flush(view)
        }
    }

    fn pending(&mut self, view: &View) -> PendDec {
        if !self.in_tail {
            match self.script.pending(view) {
                PendDec::Mismatch(msg) => {
                    self.in_tail = true;
                    self.note = Some(msg);
                }
                other => return other,
            }
        }
        self.tail.pending(view)
    }

    fn top(&mut self, view: &View) -> TopDec {
        if !self.in_tail {
            match self.script.top(view) {
                TopDec::End => self.in_tail = true,
                TopDec::Mismatch(msg) => {
                    self.in_tail = true;
                    self.note = Some(msg);
                }
                other => return other,
            }
        }
        if let Some(msg) = self.note.take() {
            return TopDec::Note(serde_json::json!({"e":"departed","msg":msg}));
        }
        self.tail.top(view)
    }

    fn wrote(&mut self, bytes: &[u8]) {
        if self.in_tail {
            self.tail.wrote(bytes);
        }
    }

    fn returned(&mut self, op: &str, result: &serde_json::Value, obs: &serde_json::Value) {
        self.tail.returned(op, result, obs);
    }

    fn new_transport(&mut self) {
        if self.in_tail {
            self.tail.new_transport();
        }
    }

    fn spin_adv(&mut self, view: &View, n: u32) -> Option<u64> {
        if self.in_tail {
            self.tail.spin_adv(view, n)
        } else {
            self.script.spin_adv(view, n)
        }
    }

    fn spin_inject(&mut self, view: &View, n: u32) -> Option<Vec<u8>> {
        if self.in_tail {
            self.tail.spin_inject(view, n)
        } else {
            self.script.spin_inject(view, n)
        }
    }
}
