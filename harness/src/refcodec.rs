//! Independent, minimal MQTT 5 encoder / decoder written from the standard (no code shared with
//! minimq). It is NOT the oracle (the TLA+ module MqttCodec is); it only concretises what the
//! simulated broker sends and lets the broker follow what the client wrote.

use crate::types::Prop;

pub fn varint(mut v: u32, out: &mut Vec<u8>) {
    loop {
        let mut b = (v % 128) as u8;
        v /= 128;
        if v > 0 {
            b |= 0x80;
        }
        out.push(b);
        if v == 0 {
            break;
        }
    }
}

fn lp(data: &[u8], out: &mut Vec<u8>) {
    out.extend_from_slice(&(data.len() as u16).to_be_bytes());
    out.extend_from_slice(data);
}

pub fn enc_prop(p: &Prop, out: &mut Vec<u8>) {
    varint(p.id as u32, out);
    match p.id {
        0x01 | 0x17 | 0x19 | 0x24 | 0x25 | 0x28 | 0x29 | 0x2A => out.push(p.n as u8),
        0x13 | 0x21 | 0x22 | 0x23 => out.extend_from_slice(&(p.n as u16).to_be_bytes()),
        0x02 | 0x11 | 0x18 | 0x27 => out.extend_from_slice(&(p.n as u32).to_be_bytes()),
        0x0B => varint(p.n as u32, out),
        0x26 => {
            lp(&p.s, out);
            lp(&p.t, out);
        }
        _ => lp(&p.s, out),
    }
}

pub fn enc_props(props: &[Prop]) -> Vec<u8> {
    let mut body = Vec::new();
    for p in props {
        enc_prop(p, &mut body);
    }
    let mut out = Vec::new();
    varint(body.len() as u32, &mut out);
    out.extend(body);
    out
}

pub fn frame(first: u8, body: &[u8]) -> Vec<u8> {
    let mut out = vec![first];
    varint(body.len() as u32, &mut out);
    out.extend_from_slice(body);
    out
}

pub fn connack(sp: bool, rc: u8, props: &[Prop]) -> Vec<u8> {
    let mut body = vec![sp as u8, rc];
    body.extend(enc_props(props));
    frame(0x20, &body)
}

/// short = 2: id only; 3: id + reason; otherwise id + reason + property block
pub fn ack(kind: u8, id: u16, rc: u8, short: u8, props: &[Prop]) -> Vec<u8> {
    let mut body = id.to_be_bytes().to_vec();
    if short != 2 {
        body.push(rc);
        if short != 3 {
            body.extend(enc_props(props));
        }
    }
    let flags = if kind == 6 { 2 } else { 0 };
    frame(kind << 4 | flags, &body)
}

pub fn suback(kind: u8, id: u16, codes: &[u8], props: &[Prop]) -> Vec<u8> {
    let mut body = id.to_be_bytes().to_vec();
    body.extend(enc_props(props));
    body.extend_from_slice(codes);
    frame(kind << 4, &body)
}

#[allow(clippy::too_many_arguments)]
pub fn publish(
    qos: u8,
    dup: bool,
    retain: bool,
    topic: &[u8],
    id: u16,
    props: &[Prop],
    payload: &[u8],
) -> Vec<u8> {
    let mut body = Vec::new();
    lp(topic, &mut body);
    if qos > 0 {
        body.extend_from_slice(&id.to_be_bytes());
    }
    body.extend(enc_props(props));
    body.extend_from_slice(payload);
    frame(0x30 | (dup as u8) << 3 | qos << 1 | retain as u8, &body)
}

pub fn pingresp() -> Vec<u8> {
    vec![0xD0, 0x00]
}

pub fn disconnect(rc: u8) -> Vec<u8> {
    vec![0xE0, 0x01, rc]
}

/// What the broker needs to know about one complete client packet.
#[derive(Debug, Clone, Default)]
pub struct ClientPacket {
    pub kind: u8,
    pub flags: u8,
    pub id: u16,
    pub qos: u8,
    pub clean_start: bool,
    pub filters: usize,
    pub rc: u8,
    pub len: usize,
}

/// Try to cut one complete packet off the front of `buf`.
pub fn take_packet(buf: &mut Vec<u8>) -> Option<Vec<u8>> {
    if buf.len() < 2 {
        return None;
    }
    let mut len = 0usize;
    let mut mult = 1usize;
    let mut i = 1;
    loop {
        if i >= buf.len() || i > 4 {
            return None;
        }
        let b = buf[i];
        len += (b as usize & 0x7F) * mult;
        mult *= 128;
        i += 1;
        if b & 0x80 == 0 {
            break;
        }
    }
    let total = i + len;
    if buf.len() < total {
        return None;
    }
    let pkt: Vec<u8> = buf.drain(..total).collect();
    Some(pkt)
}

fn read_varint(b: &[u8], i: &mut usize) -> Option<u32> {
    let mut v = 0u32;
    let mut mult = 1u32;
    for _ in 0..4 {
        let x = *b.get(*i)?;
        *i += 1;
        v += (x as u32 & 0x7F) * mult;
        mult = mult.wrapping_mul(128);
        if x & 0x80 == 0 {
            return Some(v);
        }
    }
    None
}

pub fn parse_client(pkt: &[u8]) -> Option<ClientPacket> {
    let mut i = 1;
    let _rl = read_varint(pkt, &mut i)?;
    let kind = pkt[0] >> 4;
    let flags = pkt[0] & 0x0F;
    let mut out = ClientPacket {
        kind,
        flags,
        len: pkt.len(),
        ..Default::default()
    };
    let body = &pkt[i..];
    match kind {
        1 => {
            // "MQTT" 5 flags
            out.clean_start = body.get(7).is_some_and(|f| f & 0x02 != 0);
        }
        3 => {
            out.qos = (flags >> 1) & 3;
            let tl = u16::from_be_bytes([*body.first()?, *body.get(1)?]) as usize;
            if out.qos > 0 {
                out.id = u16::from_be_bytes([*body.get(2 + tl)?, *body.get(3 + tl)?]);
            }
        }
        4..=7 => {
            out.id = u16::from_be_bytes([*body.first()?, *body.get(1)?]);
            out.rc = body.get(2).copied().unwrap_or(0);
        }
        8 | 10 => {
            out.id = u16::from_be_bytes([*body.first()?, *body.get(1)?]);
            let mut j = 2;
            let pl = read_varint(body, &mut j)? as usize;
            j += pl;
            let mut n = 0;
            while j + 2 <= body.len() {
                let tl = u16::from_be_bytes([body[j], body[j + 1]]) as usize;
                j += 2 + tl + if kind == 8 { 1 } else { 0 };
                n += 1;
            }
            out.filters = n;
        }
        _ => {}
    }
    Some(out)
}
