//! Thread-local virtual clock implementing the embassy time driver.
//!
//! Time only moves when the harness says so. Every worker thread owns its own clock, so
//! scenarios can run in parallel.

use core::task::Waker;
use std::cell::{Cell, RefCell};

use embassy_time_driver::Driver;

pub const TICKS_PER_MS: u64 = 1_000;

thread_local! {
    static NOW: Cell<u64> = const { Cell::new(0) };
    static WAKES: RefCell<Vec<u64>> = const { RefCell::new(Vec::new()) };
    static SPIN: Cell<u64> = const { Cell::new(0) };
}

/// `Instant::now()` calls allowed during one poll of a future before the run is aborted as a
/// busy loop that performs no I/O (the I/O watchdog cannot see those).
pub const SPIN_LIMIT: u64 = 2_000_000;

pub fn reset_spin() {
    SPIN.with(|spin| spin.set(0));
}

struct VDriver;

impl Driver for VDriver {
    fn now(&self) -> u64 {
        SPIN.with(|spin| {
            spin.set(spin.get() + 1);
            if spin.get() > SPIN_LIMIT {
                spin.set(0);
                panic!("spin watchdog: no I/O progress inside one poll");
            }
        });
        NOW.with(|now| now.get())
    }

    fn schedule_wake(&self, at: u64, _waker: &Waker) {
        // The executor re-polls after every director decision; remember the deadline so the
        // director can jump the clock exactly onto it.
        WAKES.with(|wakes| wakes.borrow_mut().push(at));
    }
}

embassy_time_driver::time_driver_impl!(static DRIVER: VDriver = VDriver);

pub fn reset() {
    NOW.with(|now| now.set(0));
    WAKES.with(|wakes| wakes.borrow_mut().clear());
}

pub fn now_ms() -> u64 {
    NOW.with(|now| now.get()) / TICKS_PER_MS
}

pub fn set_ms(ms: u64) {
    NOW.with(|now| {
        let ticks = ms * TICKS_PER_MS;
        if ticks > now.get() {
            now.set(ticks);
        }
    });
}

/// Deadlines (ms) registered since the last call, earliest first; clears the list.
pub fn take_wakes_ms() -> Vec<u64> {
    WAKES.with(|wakes| {
        let mut out: Vec<u64> = wakes
            .borrow_mut()
            .drain(..)
            .map(|t| t.div_ceil(TICKS_PER_MS))
            .collect();
        out.sort_unstable();
        out.dedup();
        out
    })
}
