mod runner;
mod script;
mod types;
mod vclock;

use std::io::{BufRead, Write};

use types::Scenario;

fn main() {
    let args: Vec<String> = std::env::args().collect();
    let cmd = args.get(1).map(String::as_str).unwrap_or("");
    match cmd {
        // mqv run <scenarios.ndjson> <trace-out.ndjson>
        "run" => {
            let input = std::fs::File::open(&args[2]).expect("open scenarios");
            let mut out = std::io::BufWriter::new(std::fs::File::create(&args[3]).expect("create out"));
            let mut n = 0usize;
            let mut bad = 0usize;
            for line in std::io::BufReader::new(input).lines() {
                let line = line.unwrap();
                if line.trim().is_empty() {
                    continue;
                }
                let sc: Scenario = serde_json::from_str(&line).expect("scenario json");
                let dir = Box::new(script::ScriptDirector::new(sc.steps.clone()));
                let res = runner::run_scenario(&sc.cfg, dir);
                for l in &res.lines {
                    writeln!(out, "{l}").unwrap();
                }
                n += 1;
                if res.mismatch.is_some() || res.panicked.is_some() || res.watchdog {
                    bad += 1;
                }
            }
            eprintln!("ran {n} scenarios, {bad} with mismatch/panic/watchdog");
        }
        _ => {
            eprintln!("usage: mqv run <scenarios.ndjson> <trace.ndjson>");
            std::process::exit(2);
        }
    }
}
