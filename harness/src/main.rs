mod refcodec;
mod rnd;
mod runner;
mod script;
mod types;
mod vectors;
mod vclock;

use std::io::{BufRead, Write};

use types::Scenario;

fn main() {
    let args: Vec<String> = std::env::args().collect();
    let cmd = args.get(1).map(String::as_str).unwrap_or("");
    match cmd {
        // mqv run <scenarios.ndjson> <trace-out.ndjson>
        "run" => {
            let input = std::fs::File::open(&args[2]).expect("open scenarios");
            let mut out = std::io::BufWriter::new(std::fs::File::create(&args[3]).expect("create out"));
            let mut n = 0usize;
            let mut bad = 0usize;
            for line in std::io::BufReader::new(input).lines() {
                let line = line.unwrap();
                if line.trim().is_empty() {
                    continue;
                }
                let sc: Scenario = serde_json::from_str(&line).expect("scenario json");
                let dir: Box<dyn runner::Director> = if sc.drain {
                    Box::new(script::ChainDirector::new(
                        sc.steps.clone(),
                        rnd::RandomDirector::benign_tail(n as u64, sc.cfg.rx),
                    ))
                } else {
                    Box::new(script::ScriptDirector::new(sc.steps.clone()))
                };
                let res = runner::run_scenario(&sc.cfg, dir);
                for l in &res.lines {
                    writeln!(out, "{l}").unwrap();
                }
                n += 1;
                if res.mismatch.is_some() || res.panicked.is_some() || res.watchdog {
                    bad += 1;
                }
            }
            eprintln!("ran {n} scenarios, {bad} with mismatch/panic/watchdog");
        }
        // mqv random <seed> <count> <profile.json|-> <trace-out.ndjson> [cfg.json]
        "random" => {
            let seed: u64 = args[2].parse().expect("seed");
            let count: usize = args[3].parse().expect("count");
            let profile: rnd::Profile = if args[4] == "-" {
                rnd::Profile::default()
            } else {
                serde_json::from_str(&std::fs::read_to_string(&args[4]).expect("profile")).expect("profile json")
            };
            let mut out = std::io::BufWriter::new(std::fs::File::create(&args[5]).expect("create out"));
            let cfgs: Vec<types::Cfg> = match args.get(6) {
                Some(path) => std::fs::read_to_string(path)
                    .expect("cfgs")
                    .lines()
                    .filter(|l| !l.trim().is_empty())
                    .map(|l| serde_json::from_str(l).expect("cfg json"))
                    .collect(),
                None => vec![serde_json::from_str(r#"{"rx":128,"tx":1152,"client_id":[116,101,115,116],"ka":60,"sei":300}"#).unwrap()],
            };
            let (mut bad, mut events) = (0usize, 0usize);
            for i in 0..count {
                let mut cfg = cfgs[i % cfgs.len()].clone();
                let s = seed.wrapping_mul(1_000_003).wrapping_add(i as u64);
                cfg.name = format!("rnd-{seed}-{i}");
                let dir = Box::new(rnd::RandomDirector::new(s, profile.clone(), cfg.rx, cfg.downgrade));
                let res = runner::run_scenario(&cfg, dir);
                events += res.lines.len();
                for l in &res.lines {
                    writeln!(out, "{l}").unwrap();
                }
                if res.mismatch.is_some() || res.panicked.is_some() || res.watchdog {
                    bad += 1;
                }
            }
            eprintln!("ran {count} random scenarios, {events} events, {bad} with mismatch/panic/watchdog");
        }
        // mqv twins <kind: cancel|fragment> <seed> <count> <trace-out.ndjson>
        "twins" => {
            let kind = match args[2].as_str() {
                "cancel" => rnd::TwinKind::Cancel,
                "stall" => rnd::TwinKind::Stall,
                "fragcancel" => rnd::TwinKind::FragCancel(true),
                _ => rnd::TwinKind::Fragment,
            };
            let cuts = matches!(kind, rnd::TwinKind::FragCancel(_));
            let seed: u64 = args[3].parse().expect("seed");
            let count: usize = args[4].parse().expect("count");
            let mut out = std::io::BufWriter::new(std::fs::File::create(&args[5]).expect("create out"));
            let mut cfg0: types::Cfg = serde_json::from_str(r#"{"rx":160,"tx":1152,"client_id":[116,119],"ka":0,"sei":300}"#).unwrap();
            if kind == rnd::TwinKind::Stall {
                cfg0.ka = 2;
            }
            let mut bad = 0;
            let mut skipped = 0;
            for i in 0..count {
                let s = seed.wrapping_mul(7_000_003).wrapping_add(i as u64);
                let program = if cuts { rnd::twin_program_with(s, 12 + (i % 7), cfg0.rx, 9) }
                              else { rnd::twin_program(s, 10 + (i % 7), cfg0.rx) };
                let dropped = std::rc::Rc::new(std::cell::RefCell::new(Vec::new()));
                let mut cfg = cfg0.clone();
                cfg.name = format!("twin-{}-{seed}-{i}-variant", args[2]);
                let mut dir = rnd::TwinDirector::new(s, program.clone(), kind, cfg.rx, dropped.clone());
                if cuts {
                    dir = dir.with_cuts(s);
                }
                let variant = runner::run_scenario(&cfg, Box::new(dir));
                // the base run: the same program minus the requests that were cancelled before
                // they were enqueued, nothing pending, nothing partial, nothing cancelled
                let skip: Vec<usize> = dropped.borrow().clone();
                let base_program: Vec<types::Step> = program.iter().enumerate()
                    .filter(|(k, _)| !skip.contains(k)).map(|(_, st)| st.clone()).collect();
                cfg.name = format!("twin-{}-{seed}-{i}-base", args[2]);
                let nobody = std::rc::Rc::new(std::cell::RefCell::new(Vec::new()));
                let base_kind = if cuts { rnd::TwinKind::FragCancel(false) } else { rnd::TwinKind::Base };
                let mut dir = rnd::TwinDirector::new(s, base_program, base_kind, cfg.rx, nobody);
                if cuts {
                    dir = dir.with_cuts(s);
                }
                let base = runner::run_scenario(&cfg, Box::new(dir));
                // A request refused for lack of a slot or of window is not comparable: the runs of a
                // pair consume acknowledgements at different moments (the continuation calls after a
                // cancellation are extra polls), so one may have room where the other has not.
                let mut limited = false;
                for res in [&base, &variant] {
                    if res.mismatch.is_some() || res.panicked.is_some() || res.watchdog { bad += 1; }
                    for l in &res.lines {
                        if l.contains("\"InflightExhausted\"") || l.contains("\"NotReady\"") { limited = true; }
                        writeln!(out, "{l}").unwrap();
                    }
                }
                if limited {
                    skipped += 1;
                } else {
                    writeln!(out, "{}", serde_json::json!({"e":"twin","kind":args[2],"dropped":skip.len()})).unwrap();
                }
            }
            eprintln!("ran {count} twin pairs ({}), {skipped} not compared (a request met a full window), {bad} runs with mismatch/panic/watchdog", args[2]);
        }
        // mqv aged <seed> <count> <profile.json|-> <trace-out.ndjson> <cfgs.ndjson> [keep]
        "aged" => {
            let seed: u64 = args[2].parse().expect("seed");
            let count: usize = args[3].parse().expect("count");
            let profile: rnd::Profile = if args[4] == "-" { rnd::Profile::default() } else {
                serde_json::from_reader(std::fs::File::open(&args[4]).expect("open profile")).expect("profile json")
            };
            let mut out = std::io::BufWriter::new(std::fs::File::create(&args[5]).expect("create out"));
            let cfgs: Vec<types::Cfg> = std::fs::read_to_string(&args[6]).expect("cfgs").lines()
                .filter(|l| !l.trim().is_empty()).map(|l| serde_json::from_str(l).expect("cfg json")).collect();
            let reconnect = args.get(7).map(|a| a != "keep").unwrap_or(true);
            let (mut bad, mut compared) = (0usize, 0usize);
            for i in 0..count {
                let mut cfg = cfgs[i % cfgs.len()].clone();
                let s = seed.wrapping_mul(9_000_011).wrapping_add(i as u64);
                let flag = std::rc::Rc::new(std::cell::Cell::new(false));
                cfg.name = format!("aged-{seed}-{i}-fresh");
                let dir = Box::new(rnd::AgedDirector::new(s, None, cfg.tx, cfg.rx, reconnect, flag.clone()));
                let fresh = runner::run_scenario(&cfg, dir);
                cfg.name = format!("aged-{seed}-{i}-aged");
                let hist = rnd::RandomDirector::new(s, profile.clone(), cfg.rx, cfg.downgrade);
                let dir = Box::new(rnd::AgedDirector::new(s, Some(hist), cfg.tx, cfg.rx, reconnect, flag.clone()));
                let aged = runner::run_scenario(&cfg, dir);
                for res in [&fresh, &aged] {
                    if res.mismatch.is_some() || res.panicked.is_some() || res.watchdog { bad += 1; }
                    for l in &res.lines { writeln!(out, "{l}").unwrap(); }
                }
                // compared only when the history could be drained to a quiescent session
                if flag.get() {
                    compared += 1;
                    writeln!(out, "{}", serde_json::json!({"e":"twin","kind":"aged","dropped":0})).unwrap();
                }
            }
            eprintln!("ran {count} fresh/aged pairs, {compared} compared, {bad} runs with mismatch/panic/watchdog");
        }
        // mqv program <programs.ndjson> <trace-out.ndjson>: fixed request programs against the
        // deterministic benign broker (every I/O call completes at once, answers in order)
        "program" => {
            #[derive(serde::Deserialize)]
            struct Program {
                cfg: types::Cfg,
                steps: Vec<types::Step>,
                #[serde(default)]
                connack: Vec<types::Prop>,
            }
            let input = std::fs::File::open(&args[2]).expect("open programs");
            let mut out = std::io::BufWriter::new(std::fs::File::create(&args[3]).expect("create out"));
            let (mut n, mut bad) = (0usize, 0usize);
            for line in std::io::BufReader::new(input).lines() {
                let line = line.unwrap();
                if line.trim().is_empty() {
                    continue;
                }
                let p: Program = serde_json::from_str(&line).expect("program json");
                let nobody = std::rc::Rc::new(std::cell::RefCell::new(Vec::new()));
                let mut dir = rnd::TwinDirector::new(n as u64, p.steps.clone(), rnd::TwinKind::Base, p.cfg.rx, nobody);
                dir.inner.fixed_acks = true;
                dir.inner.connack_extra = p.connack.clone();
                let res = runner::run_scenario(&p.cfg, Box::new(dir));
                for l in &res.lines {
                    writeln!(out, "{l}").unwrap();
                }
                n += 1;
                if res.mismatch.is_some() || res.panicked.is_some() || res.watchdog {
                    bad += 1;
                }
            }
            eprintln!("ran {n} programs, {bad} with mismatch/panic/watchdog");
        }
        // mqv vectors <vectors.ndjson> <trace-out.ndjson> [rx]
        "vectors" => {
            let input = std::fs::File::open(&args[2]).expect("open vectors");
            let mut out = std::io::BufWriter::new(std::fs::File::create(&args[3]).expect("create out"));
            let rx: usize = args.get(4).map(|s| s.parse().unwrap()).unwrap_or(64);
            let mut cfg: types::Cfg = serde_json::from_str(r#"{"rx":64,"tx":256,"client_id":[118],"ka":0,"sei":0}"#).unwrap();
            cfg.rx = rx;
            let (mut n, mut bad) = (0usize, 0usize);
            for line in std::io::BufReader::new(input).lines() {
                let line = line.unwrap();
                if line.trim().is_empty() {
                    continue;
                }
                let v: vectors::Vector = serde_json::from_str(&line).expect("vector json");
                cfg.name = format!("vec-{n}");
                let res = runner::run_scenario(&cfg, Box::new(vectors::VectorDirector::new(v)));
                for l in &res.lines {
                    writeln!(out, "{l}").unwrap();
                }
                n += 1;
                if res.panicked.is_some() || res.watchdog {
                    bad += 1;
                }
            }
            eprintln!("fed {n} vectors, {bad} with panic/watchdog");
        }
        _ => {
            eprintln!("usage: mqv run <scenarios.ndjson> <trace.ndjson>");
            std::process::exit(2);
        }
    }
}
