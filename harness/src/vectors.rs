//! C08: feed byte vectors to the client, at the CONNACK position of connect() or after CONNACK via
//! poll(), under a chosen read chunking. The verdict on each vector is TLC's (MqttCodec.tla, through
//! the Observer); this module only delivers the bytes and records what the client did.

use serde::Deserialize;

use crate::runner::{Director, IoDec, PendDec, TopDec, View};
use crate::types::Step;

#[derive(Deserialize, Clone, Debug)]
pub struct Vector {
    pub bytes: Vec<u8>,
    /// "conn": the vector is the broker's answer to CONNECT; "poll": it arrives after a good CONNACK
    pub pos: String,
    /// 0 = as much as the client asks for; n = at most n bytes per read
    #[serde(default)]
    pub chunk: usize,
    /// sizes of the first reads (at most that many bytes each); later reads follow `chunk`
    #[serde(default)]
    pub sizes: Vec<usize>,
}

pub struct VectorDirector {
    v: Vector,
    phase: u32,
    injected: bool,
    idle: u32,
    reads: usize,
}

impl VectorDirector {
    pub fn new(v: Vector) -> Self {
        Self { v, phase: 0, injected: false, idle: 0, reads: 0 }
    }
}

const CONNACK: [u8; 5] = [0x20, 0x03, 0x00, 0x00, 0x00];

impl Director for VectorDirector {
    fn write(&mut self, _view: &View, offered: &[u8]) -> IoDec {
        IoDec::Ready(offered.len())
    }

    fn read(&mut self, view: &View, want: usize) -> IoDec {
        if view.inbound_avail == 0 {
            return IoDec::Pending;
        }
        let max = want.min(view.inbound_avail);
        // the CONNACK of a "poll" vector is not part of the pattern
        if !(self.v.pos == "poll" && view.op == "conn") {
            self.reads += 1;
            if let Some(n) = self.v.sizes.get(self.reads - 1) {
                return IoDec::Ready(max.min((*n).max(1)));
            }
        }
        IoDec::Ready(if self.v.chunk == 0 { max } else { max.min(self.v.chunk) })
    }

    fn flush(&mut self, _view: &View) -> IoDec {
        IoDec::Ready(0)
    }

    fn pending(&mut self, view: &View) -> PendDec {
        if view.inbound_avail > 0 {
            return PendDec::Resume;
        }
        if view.op == "conn" && !self.injected {
            self.injected = true;
            return PendDec::Inject(if self.v.pos == "conn" { self.v.bytes.clone() } else { CONNACK.to_vec() });
        }
        // nothing more will come: the vector was incomplete (or fully consumed)
        self.idle += 1;
        PendDec::Cancel
    }

    fn top(&mut self, view: &View) -> TopDec {
        self.phase += 1;
        match self.phase {
            1 => TopDec::Call(Step::Conn { healthy: false }),
            2 if view.has_conn && self.v.pos == "poll" => TopDec::Inject(self.v.bytes.clone()),
            3..=6 if view.has_conn && self.v.pos == "poll" => TopDec::Call(Step::Poll {}),
            // a handle that survived: one more poll shows it is still alive / dead
            2 if view.has_conn => TopDec::Call(Step::Drive {}),
            7 if view.has_conn => TopDec::Call(Step::Publish {
                qos: 0, topic: b"after".to_vec(), payload: b"x".to_vec(), retain: false, props: vec![],
                corr: None, payload_fails: false, corr_first: false }),
            _ if view.has_conn => TopDec::DropConn,
            _ => TopDec::End,
        }
    }
}
