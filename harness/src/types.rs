//! Scenario / trace vocabulary shared by the script director, the random director and the
//! recorder. One JSON object per line; `e` names the event. All strings travel as byte arrays so
//! that the TLA+ side compares them with decoded wire bytes directly.

use serde::{Deserialize, Serialize};

pub type Bytes = Vec<u8>;

#[derive(Serialize, Deserialize, Clone, Debug, PartialEq)]
pub struct Prop {
    pub id: u8,
    #[serde(default, skip_serializing_if = "is_zero")]
    pub n: u64,
    #[serde(default, skip_serializing_if = "Vec::is_empty")]
    pub s: Bytes,
    #[serde(default, skip_serializing_if = "Vec::is_empty")]
    pub t: Bytes,
}

fn is_zero(n: &u64) -> bool {
    *n == 0
}

#[derive(Serialize, Deserialize, Clone, Debug)]
pub struct WillSpec {
    pub topic: Bytes,
    pub payload: Bytes,
    #[serde(default)]
    pub qos: u8,
    #[serde(default)]
    pub retain: bool,
    #[serde(default)]
    pub props: Vec<Prop>,
}

#[derive(Serialize, Deserialize, Clone, Debug)]
pub struct AuthSpec {
    pub user: Bytes,
    pub pass: Bytes,
}

#[derive(Serialize, Deserialize, Clone, Debug)]
pub struct Cfg {
    #[serde(default)]
    pub name: String,
    pub rx: usize,
    pub tx: usize,
    #[serde(default)]
    pub client_id: Bytes,
    #[serde(default = "default_ka")]
    pub ka: u16,
    #[serde(default)]
    pub sei: u32,
    #[serde(default)]
    pub downgrade: bool,
    #[serde(default)]
    pub will: Option<WillSpec>,
    #[serde(default)]
    pub auth: Option<AuthSpec>,
    /// I/O calls allowed per API call before the watchdog aborts the run.
    #[serde(default = "default_watchdog")]
    pub watchdog: u64,
    /// Start value of the packet identifier counter (uses the verification hook); 0 = default.
    #[serde(default)]
    pub first_id: u16,
}

fn default_ka() -> u16 {
    60
}

fn default_watchdog() -> u64 {
    20_000
}

#[derive(Serialize, Deserialize, Clone, Debug)]
pub struct Filter {
    pub topic: Bytes,
    #[serde(default)]
    pub qos: u8,
    #[serde(default)]
    pub nl: bool,
    #[serde(default)]
    pub rap: bool,
    #[serde(default)]
    pub rh: u8,
}

/// One scripted step. API calls, environment decisions and (in recorded traces) observations.
#[derive(Serialize, Deserialize, Clone, Debug)]
#[serde(tag = "e", rename_all = "lowercase")]
pub enum Step {
    // ---- API calls -------------------------------------------------------------------------
    Conn {
        /// the director promises a healthy transport and a conformant, accepting broker
        #[serde(default)]
        healthy: bool,
    },
    Publish {
        qos: u8,
        topic: Bytes,
        payload: Bytes,
        #[serde(default)]
        retain: bool,
        #[serde(default)]
        props: Vec<Prop>,
        /// attach correlation data through `Publication::correlate`
        #[serde(default)]
        corr: Option<Bytes>,
        /// make the payload serializer fail (exercises `PubError::Payload`)
        #[serde(default)]
        payload_fails: bool,
        /// builder order: `correlate()` before `properties()` instead of after
        #[serde(default)]
        corr_first: bool,
    },
    Subscribe {
        filters: Vec<Filter>,
        #[serde(default)]
        props: Vec<Prop>,
    },
    Unsubscribe {
        topics: Vec<Bytes>,
        #[serde(default)]
        props: Vec<Prop>,
    },
    Poll {},
    Recv {},
    Drive {},
    Disconnect {
        #[serde(default)]
        reason: Option<u8>,
        #[serde(default)]
        props: Option<Vec<Prop>>,
    },
    /// Publish the reply to the most recent inbound message that offered one
    /// (`reply_owned` with the given capacities, or the borrowed `reply`).
    Drop {},
    /// programs only: end the connection (if any) and connect again; the broker keeps the session and
    /// answers with these CONNACK properties
    Reconnect {
        #[serde(default)]
        connack: Vec<Prop>,
        /// between the two connections: place the packet identifier counter (verification hook)
        #[serde(default)]
        setid: Option<u16>,
    },
    /// programs only: while on, the broker's PUBCOMPs are held back (they are delivered, in order, when it is
    /// switched off) -- exchanges then stay in their PUBREL state
    Hold {
        on: bool,
    },
    // ---- environment decisions -------------------------------------------------------------
    W {
        acc: usize,
    },
    Wpend {},
    Werr {},
    /// the transport takes nothing: write returns Ok(0)
    Wzero {},
    F {
        r: String,
    },
    R {
        got: usize,
        /// expected size of the window the client offers to read() (0 = not checked)
        #[serde(default)]
        want: usize,
    },
    Rpend {},
    Reof {},
    Rerr {},
    Adv {
        to: u64,
    },
    B {
        bytes: Bytes,
    },
    Cancel {},
    /// between connections: move the packet identifier counter (verification hook); stands for the
    /// 65535 allocations that bring the 16-bit counter back to this value
    Setid {
        id: u16,
    },
}

impl Step {
    pub fn is_call(&self) -> bool {
        matches!(
            self,
            Step::Conn { .. }
                | Step::Publish { .. }
                | Step::Subscribe { .. }
                | Step::Unsubscribe { .. }
                | Step::Poll {}
                | Step::Recv {}
                | Step::Drive {}
                | Step::Disconnect { .. }
        )
    }
}

#[derive(Serialize, Deserialize, Clone, Debug)]
pub struct Scenario {
    pub cfg: Cfg,
    pub steps: Vec<Step>,
    /// append a benign continuation (reconnect with session present, conformant broker, poll
    /// until quiescent) after the script
    #[serde(default)]
    pub drain: bool,
}
