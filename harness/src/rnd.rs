//! Random director: random API programs, random transport behaviour (partial I/O, pending,
//! faults), cancellations, virtual time, and a broker model that follows what the client wrote.
//! Every decision comes from one seeded RNG, and every decision is recorded by the runner, so a
//! trace is replayable through the script director.

use std::collections::{HashSet, VecDeque};

use rand::rngs::StdRng;
use rand::{Rng, SeedableRng};
use serde::{Deserialize, Serialize};
use serde_json::{Value, json};

use crate::refcodec as rc;
use crate::runner::{Director, IoDec, PendDec, TopDec, View};
use crate::types::{Filter, Prop, Step};

#[derive(Serialize, Deserialize, Clone, Debug)]
#[serde(default)]
pub struct Profile {
    pub calls: usize,
    pub p_partial: f64,
    pub p_byte: f64,
    pub p_pend: f64,
    pub p_cancel: f64,
    pub p_fault: f64,
    pub p_drop: f64,
    pub p_session_loss: f64,
    pub p_reject_connack: f64,
    pub p_fail_ack: f64,
    pub p_stale: f64,
    pub p_reorder: f64,
    pub p_inbound: f64,
    pub p_garbage: f64,
    pub p_bad_connack: f64,
    pub p_dead_call: f64,
    pub p_invalid_props: f64,
    pub p_broker_disconnect: f64,
    pub p_no_pingresp: f64,
    pub p_delay: f64,
    pub p_setid: f64,
    pub p_stall: f64,
    pub p_wzero: f64,
    /// how many times in a row the transport may answer "pending" (a write stall that outlasts several cancelled calls)
    pub max_pend: u32,
    /// a link that stays stalled while the application keeps cancelling and re-issuing its calls (a
    /// `select(poll, tick)` loop): probability per call of entering such a stretch
    pub p_stall_loop: f64,
    pub rm: Vec<u16>,
    pub maxpkt: Vec<u32>,
    pub maxqos: Vec<u8>,
    pub ska: Vec<u16>,
    pub payload_max: usize,
    pub time: bool,
    pub drain: bool,
    pub w_pub0: u32,
    pub w_pub1: u32,
    pub w_pub2: u32,
    pub w_sub: u32,
    pub w_unsub: u32,
    pub w_poll: u32,
    pub w_drive: u32,
    pub w_recv: u32,
    pub w_disconnect: u32,
    pub assign_client_id: bool,
    pub max_conns: usize,
}

impl Default for Profile {
    fn default() -> Self {
        Self {
            calls: 40,
            p_partial: 0.4,
            p_byte: 0.2,
            p_pend: 0.15,
            p_cancel: 0.08,
            p_fault: 0.01,
            p_drop: 0.03,
            p_session_loss: 0.15,
            p_reject_connack: 0.05,
            p_fail_ack: 0.05,
            p_stale: 0.03,
            p_reorder: 0.3,
            p_inbound: 0.25,
            p_garbage: 0.0,
            p_bad_connack: 0.0,
            p_dead_call: 0.3,
            p_invalid_props: 0.0,
            p_broker_disconnect: 0.01,
            p_no_pingresp: 0.2,
            p_delay: 0.0,
            p_setid: 0.0,
            p_stall: 0.0,
            p_wzero: 0.0,
            max_pend: 2,
            p_stall_loop: 0.0,
            rm: vec![0, 0, 1, 2, 3, 8, 20],
            maxpkt: vec![0],
            maxqos: vec![2, 2, 2, 1, 0],
            ska: vec![0],
            payload_max: 24,
            time: false,
            drain: true,
            w_pub0: 2,
            w_pub1: 4,
            w_pub2: 4,
            w_sub: 2,
            w_unsub: 1,
            w_poll: 8,
            w_drive: 2,
            w_recv: 1,
            w_disconnect: 1,
            assign_client_id: false,
            max_conns: 6,
        }
    }
}

#[derive(Default)]
struct Broker {
    has_session: bool,
    inbuf: Vec<u8>,
    outq: VecDeque<Vec<u8>>,
    next_id: u16,
    out_q1: Vec<(u16, Vec<u8>)>,
    out_q2_pub: Vec<(u16, Vec<u8>)>,
    out_q2_rel: Vec<u16>,
    in_q2: HashSet<u16>,
    /// identifiers of requests the broker has received and not yet finally acknowledged (from what went
    /// over the wire: the client must still hold every one of them)
    wire_open: HashSet<u16>,
    connected: bool,
    closed: bool,
    sent_acks: Vec<Vec<u8>>,
    msg_n: u32,
    /// virtual time before which nothing queued is delivered (slow answers)
    hold_until: u64,
    /// never answer PINGREQ
    mute_ping: bool,
}

pub struct RandomDirector {
    rng: StdRng,
    pub p: Profile,
    broker: Broker,
    calls_left: usize,
    conns: usize,
    benign: bool,
    last_pending: char,
    consecutive_pend: u32,
    stall_loop_left: u32,
    frame_buf: Vec<u8>,
    req_n: u32,
    idle: u32,
    drain_polls: u32,
    drain_done: bool,
    noted: bool,
    last_q: bool,
    last_handles_done: bool,
    cur_op: String,
    cur_cancel_safe: bool,
    rx: usize,
    downgrade: bool,
    force_drop: bool,
    reconnected_once: bool,
    /// the benign continuation may reconnect once when nothing is in transit (see `pending`)
    heal: bool,
    /// the bytes last injected are a PINGRESP (keep-alive traffic does not count as progress)
    ping_inbound: bool,
    /// the broker answers with success codes only and never varies them (aged / fresh twins)
    pub fixed_acks: bool,
    /// properties the benign broker puts into every CONNACK (systematic programs)
    pub connack_extra: Vec<Prop>,
    now_ms: u64,
    stalls: u32,
    /// probes run before the benign drain: PUBREL sweep (reveals the pending inbound QoS 2
    /// identifiers) and a QoS 1 publish burst until refusal (reveals the send quota)
    pub probe: bool,
    probe_step: u32,
    burst_done: bool,
}

impl RandomDirector {
    /// A director that starts directly in the benign continuation and whose broker claims to
    /// hold the session (it answers everything the client replays).
    pub fn benign_tail(seed: u64, rx: usize) -> Self {
        let mut p = Profile::default();
        p.calls = 0;
        let mut d = Self::new(seed, p, rx, false);
        d.broker.has_session = true;
        d.probe = true;
        d.heal = true;
        d
    }

    pub fn new(seed: u64, p: Profile, rx: usize, downgrade: bool) -> Self {
        let calls = p.calls;
        Self {
            rng: StdRng::seed_from_u64(seed),
            p,
            broker: Broker {
                next_id: 1,
                ..Default::default()
            },
            calls_left: calls,
            conns: 0,
            benign: false,
            last_pending: ' ',
            consecutive_pend: 0,
            stall_loop_left: 0,
            frame_buf: Vec::new(),
            req_n: 0,
            idle: 0,
            drain_polls: 0,
            drain_done: false,
            noted: false,
            last_q: true,
            last_handles_done: true,
            cur_op: String::new(),
            cur_cancel_safe: true,
            rx,
            downgrade,
            force_drop: false,
            reconnected_once: false,
            heal: false,
            ping_inbound: false,
            fixed_acks: false,
            connack_extra: Vec::new(),
            now_ms: 0,
            stalls: 0,
            probe: false,
            probe_step: 0,
            burst_done: false,
        }
    }

    fn chance(&mut self, p: f64) -> bool {
        p > 0.0 && self.rng.gen_bool(p.min(1.0))
    }

    fn pick<T: Copy>(&mut self, v: &[T]) -> T {
        v[self.rng.gen_range(0..v.len())]
    }

    // ---- broker -------------------------------------------------------------------------

    fn broker_connack(&mut self, clean_start: bool) {
        let b_has = self.broker.has_session;
        let lose = !self.benign && self.chance(self.p.p_session_loss);
        let sp = b_has && !clean_start && !lose;
        if !self.benign && self.chance(self.p.p_reject_connack) {
            let code = self.pick(&[0x80u8, 0x87, 0x88, 0x89, 0x97]);
            self.broker.outq.push_back(rc::connack(false, code, &[]));
            self.broker.closed = true;
            return;
        }
        if !sp {
            // fresh broker session: the client restarts its identifiers, so duplicates of old
            // acknowledgements could name identifiers that are in use again
            self.broker.sent_acks.clear();
            self.broker.next_id = 1;
            self.broker.out_q1.clear();
            self.broker.out_q2_pub.clear();
            self.broker.out_q2_rel.clear();
            self.broker.in_q2.clear();
            self.broker.wire_open.clear();
        }
        self.broker.has_session = true;
        if !self.benign && self.chance(self.p.p_bad_connack) {
            // a success CONNACK whose properties the client must refuse (Receive Maximum 0,
            // Maximum QoS 3, or an assigned client identifier longer than it can store)
            let bad = match self.rng.gen_range(0..3) {
                0 => Prop { id: 0x21, n: 0, s: vec![], t: vec![] },
                1 => Prop { id: 0x24, n: 3, s: vec![], t: vec![] },
                _ => Prop { id: 0x12, n: 0, s: vec![b'x'; 70], t: vec![] },
            };
            // now and then a perfectly good Server Keep Alive in front of it: nothing of a rejected
            // packet may be acted upon
            let mut ps = Vec::new();
            if self.chance(0.5) {
                ps.push(Prop { id: 0x13, n: self.rng.gen_range(1..30), s: vec![], t: vec![] });
            }
            ps.push(bad);
            self.broker.outq.push_back(rc::connack(sp, 0, &ps));
            self.broker.closed = true;
            return;
        }
        self.broker.connected = true;
        let mut props = Vec::new();
        let rm = if self.benign { 0 } else { let v = self.p.rm.clone(); self.pick(&v) };
        if rm > 0 {
            props.push(Prop { id: 0x21, n: rm as u64, s: vec![], t: vec![] });
        }
        if !self.benign {
            let v = self.p.maxpkt.clone();
            let mp = self.pick(&v);
            if mp > 0 {
                props.push(Prop { id: 0x27, n: mp as u64, s: vec![], t: vec![] });
            }
            let v = self.p.maxqos.clone();
            let mq = self.pick(&v);
            if mq < 2 {
                props.push(Prop { id: 0x24, n: mq as u64, s: vec![], t: vec![] });
            }
            let v = self.p.ska.clone();
            let ska = self.pick(&v);
            if ska == 65535 {
                // an explicit Server Keep Alive of zero: keep-alive is off whatever was configured
                props.push(Prop { id: 0x13, n: 0, s: vec![], t: vec![] });
            } else if ska > 0 {
                props.push(Prop { id: 0x13, n: ska as u64, s: vec![], t: vec![] });
            }
            // properties the client has no use for, anywhere among the others (a decoder that
            // confuses two of them shows)
            if self.chance(0.3) {
                props.push(Prop { id: 0x22, n: self.rng.gen_range(0..40), s: vec![], t: vec![] });
            }
            if self.chance(0.15) {
                props.push(Prop { id: 0x25, n: self.rng.gen_range(0..2), s: vec![], t: vec![] });
            }
            if self.chance(0.15) {
                props.push(Prop { id: 0x28, n: 1, s: vec![], t: vec![] });
            }
            if self.chance(0.1) {
                props.push(Prop { id: 0x1F, n: 0, s: b"welcome".to_vec(), t: vec![] });
            }
            if self.chance(0.1) {
                props.push(Prop { id: 0x1A, n: 0, s: b"resp/info".to_vec(), t: vec![] });
            }
            if self.chance(0.5) {
                for i in (1..props.len()).rev() {
                    let j = self.rng.gen_range(0..=i);
                    props.swap(i, j);
                }
            }
            if self.p.assign_client_id && self.chance(0.3) {
                props.push(Prop { id: 0x12, n: 0, s: b"assigned-id".to_vec(), t: vec![] });
            }
            if self.chance(0.2) {
                props.push(Prop { id: 0x26, n: 0, s: b"k".to_vec(), t: b"v".to_vec() });
            }
        }
        if self.benign {
            props.extend(self.connack_extra.iter().cloned());
        }
        self.broker.outq.push_back(rc::connack(sp, 0, &props));
        if sp {
            // retransmit what the broker still owes the client
            let rels: Vec<u16> = self.broker.out_q2_rel.clone();
            for id in rels {
                let (rcode, short) = match self.rng.gen_range(0..6) {
                    0 => (0x92, 3),
                    1 => (0, 3),
                    2 => (0x92, 0),
                    _ => (0, 2),
                };
                self.broker.outq.push_back(rc::ack(6, id, rcode, short, &[]));
            }
            let pubs: Vec<Vec<u8>> = self
                .broker
                .out_q1
                .iter()
                .chain(self.broker.out_q2_pub.iter())
                .map(|(_, p)| {
                    let mut p = p.clone();
                    p[0] |= 0x08;
                    p
                })
                .collect();
            for p in pubs {
                self.broker.outq.push_back(p);
            }
        }
    }

    fn ack_reason(&mut self, ok_codes: &[u8]) -> u8 {
        if self.fixed_acks {
            return ok_codes[0];
        }
        if !self.benign && self.chance(self.p.p_fail_ack) {
            self.pick(&[0x80u8, 0x83, 0x87, 0x90, 0x97, 0x99])
        } else {
            self.pick(ok_codes)
        }
    }

    fn push_ack(&mut self, pkt: Vec<u8>) {
        self.broker.sent_acks.push(pkt.clone());
        if !self.benign && self.chance(self.p.p_reorder) && !self.broker.outq.is_empty() {
            let at = self.rng.gen_range(0..=self.broker.outq.len());
            // never overtake a CONNACK
            let at = at.max(self.broker.outq.iter().position(|p| p[0] >> 4 == 2).map(|i| i + 1).unwrap_or(0));
            self.broker.outq.insert(at, pkt);
        } else {
            self.broker.outq.push_back(pkt);
        }
    }

    fn broker_receive(&mut self, bytes: &[u8]) {
        if self.broker.closed {
            return;
        }
        self.broker.inbuf.extend_from_slice(bytes);
        while let Some(pkt) = rc::take_packet(&mut self.broker.inbuf) {
            let Some(cp) = rc::parse_client(&pkt) else { continue };
            let short = if self.chance(0.5) { 2 } else if self.chance(0.5) { 3 } else { 0 };
            match cp.kind {
                1 => self.broker_connack(cp.clean_start),
                3 if cp.qos == 1 => {
                    // (acknowledged at once: the identifier is open only until this answer is on its way)
                    let code = self.ack_reason(&[0, 0, 0, 0x10]);
                    let short = if code != 0 && short == 2 { 3 } else { short };
                    self.push_ack(rc::ack(4, cp.id, code, short, &[]));
                }
                3 if cp.qos == 2 => {
                    // a retransmission gets the answer the first transmission got
                    let code = if self.broker.in_q2.contains(&cp.id) { 0 } else { self.ack_reason(&[0, 0, 0, 0x10]) };
                    let short = if code != 0 && short == 2 { 3 } else { short };
                    if code < 0x80 {
                        self.broker.in_q2.insert(cp.id);
                        self.broker.wire_open.insert(cp.id);
                    } else {
                        self.broker.wire_open.remove(&cp.id);
                    }
                    self.push_ack(rc::ack(5, cp.id, code, short, &[]));
                }
                6 => {
                    let known = self.broker.in_q2.remove(&cp.id);
                    self.broker.wire_open.remove(&cp.id);
                    let code = if known { 0 } else { 0x92 };
                    let short = if code != 0 && short == 2 { 3 } else { short };
                    self.push_ack(rc::ack(7, cp.id, code, short, &[]));
                }
                8 => {
                    let codes: Vec<u8> = (0..cp.filters.max(1))
                        .map(|_| self.ack_reason(&[0, 1, 2]))
                        .collect();
                    self.push_ack(rc::suback(9, cp.id, &codes, &[]));
                }
                10 => {
                    let codes: Vec<u8> = (0..cp.filters.max(1))
                        .map(|_| self.ack_reason(&[0, 0x11]))
                        .collect();
                    self.push_ack(rc::suback(11, cp.id, &codes, &[]));
                }
                12 if self.broker.mute_ping => {}
                12 => {
                    if self.benign || !self.chance(self.p.p_no_pingresp) {
                        if !self.benign && self.p.time && self.chance(self.p.p_delay) {
                            // a slow PINGRESP: early, beyond the client's ping lead, or close to the
                            // round-trip bound
                            let l = match self.rng.gen_range(0..5) {
                                0 => self.rng.gen_range(1..600),
                                1 => self.rng.gen_range(600..3200),
                                2 => self.rng.gen_range(3200..4990),
                                3 => self.rng.gen_range(4990..5010),
                                // exactly the round-trip bound: readable at the instant the timer fires
                                _ => 5000,
                            };
                            self.broker.hold_until = self.broker.hold_until.max(self.now_ms + l);
                        }
                        self.broker.outq.push_back(rc::pingresp());
                    }
                }
                4 => self.broker.out_q1.retain(|(id, _)| *id != cp.id),
                5 => {
                    if let Some(pos) = self.broker.out_q2_pub.iter().position(|(id, _)| *id == cp.id) {
                        self.broker.out_q2_pub.remove(pos);
                        if cp.rc < 0x80 {
                            self.broker.out_q2_rel.push(cp.id);
                            self.broker.outq.push_back(rc::ack(6, cp.id, 0, short, &[]));
                        }
                    } else if self.broker.out_q2_rel.contains(&cp.id) {
                        // a repeated PUBREC: the PUBREL may say so (0x92 is its only other legal reason)
                        let rcode = if short != 2 && self.chance(0.5) { 0x92 } else { 0 };
                        self.broker.outq.push_back(rc::ack(6, cp.id, rcode, short, &[]));
                    }
                }
                7 => self.broker.out_q2_rel.retain(|id| *id != cp.id),
                14 => self.broker.closed = true,
                _ => {}
            }
        }
    }

    fn broker_inflight(&self) -> usize {
        self.broker.out_q1.len() + self.broker.out_q2_pub.len() + self.broker.out_q2_rel.len()
    }

    /// A broker-initiated PUBLISH that respects the client's Receive Maximum (8) and Maximum
    /// Packet Size (the receive buffer).
    fn broker_publish(&mut self) -> Option<Vec<u8>> {
        if !self.broker.connected || self.broker.closed {
            return None;
        }
        let qos = self.rng.gen_range(0..3u8);
        if qos > 0 && self.broker_inflight() >= 8 {
            return None;
        }
        self.broker.msg_n += 1;
        let topic = format!("in/{}", self.broker.msg_n).into_bytes();
        let plen = self.rng.gen_range(0..=self.p.payload_max);
        let payload: Vec<u8> = (0..plen).map(|_| self.rng.r#gen()).collect();
        let mut props = Vec::new();
        if self.chance(0.4) {
            // request/response: response topic and correlation data of assorted sizes, anywhere in
            // the property list (possibly correlation data first, or without a response topic)
            let tl = self.pick(&[1usize, 3, 4, 5, 8, 9, 16, 17, 40]);
            let mut rt = format!("r{}", self.broker.msg_n).into_bytes();
            rt.resize(tl.max(rt.len()), b'x');
            // now and then outside ASCII: two-, three- and four-byte characters (lengths are in bytes)
            if self.chance(0.2) {
                rt.extend_from_slice("/r\u{e9}p/\u{221a}2/\u{1f600}".as_bytes());
            }
            if self.chance(0.85) {
                props.push(Prop { id: 0x08, n: 0, s: rt, t: vec![] });
            }
            if self.chance(0.7) {
                let cl = self.pick(&[0usize, 1, 2, 3, 4, 5, 8, 9, 16, 17, 30]);
                let cd: Vec<u8> = (0..cl).map(|_| self.rng.r#gen()).collect();
                props.push(Prop { id: 0x09, n: 0, s: cd, t: vec![] });
            }
        }
        if self.chance(0.2) {
            props.push(Prop { id: 0x26, n: 0, s: b"uk".to_vec(), t: b"uv".to_vec() });
        }
        if self.chance(0.2) {
            // a string property that is not the response topic
            props.push(Prop { id: 0x03, n: 0, s: b"text/plain".to_vec(), t: vec![] });
        }
        if self.chance(0.1) {
            props.push(Prop { id: 0x02, n: self.rng.gen_range(0..100000), s: vec![], t: vec![] });
        }
        if self.chance(0.1) {
            props.push(Prop { id: 0x0B, n: self.rng.gen_range(1..300), s: vec![], t: vec![] });
        }
        if self.chance(0.1) {
            props.push(Prop { id: 0x01, n: 1, s: vec![], t: vec![] });
        }
        // any order
        for i in (1..props.len()).rev() {
            let j = self.rng.gen_range(0..=i);
            props.swap(i, j);
        }
        let mut id = 0;
        if qos > 0 {
            // an identifier that is not in flight
            loop {
                id = self.broker.next_id;
                self.broker.next_id = if id == 30 { 1 } else { id + 1 };
                let used = self.broker.out_q1.iter().any(|(i, _)| *i == id)
                    || self.broker.out_q2_pub.iter().any(|(i, _)| *i == id)
                    || self.broker.out_q2_rel.contains(&id);
                if !used {
                    break;
                }
            }
        }
        let retain = self.chance(0.15);
        let mut payload = payload;
        let mut pkt = rc::publish(qos, false, retain, &topic, id, &props, &payload);
        if pkt.len() < self.rx && self.chance(0.08) {
            // now and then a packet that fills the advertised Maximum Packet Size (the receive
            // buffer) exactly, or misses it by one byte
            let target = if self.chance(0.7) { self.rx } else { self.rx - 1 };
            for _ in 0..3 {
                if pkt.len() < target {
                    payload.extend(std::iter::repeat(0x5A).take(target - pkt.len()));
                } else if pkt.len() > target {
                    payload.truncate(payload.len().saturating_sub(pkt.len() - target));
                }
                pkt = rc::publish(qos, false, retain, &topic, id, &props, &payload);
            }
        }
        if pkt.len() > self.rx {
            return None;
        }
        match qos {
            1 => self.broker.out_q1.push((id, pkt.clone())),
            2 => self.broker.out_q2_pub.push((id, pkt.clone())),
            _ => {}
        }
        Some(pkt)
    }

    // ---- request generation -------------------------------------------------------------

    fn gen_props(&mut self, ctx: &str) -> Vec<Prop> {
        let mut props = Vec::new();
        let user = |n: u32| Prop { id: 0x26, n: 0, s: format!("k{n}").into_bytes(), t: b"val".to_vec() };
        match ctx {
            "publish" => {
                if self.chance(0.25) { props.push(Prop { id: 0x01, n: self.rng.gen_range(0..2), s: vec![], t: vec![] }); }
                if self.chance(0.2) { props.push(Prop { id: 0x02, n: self.rng.gen_range(0..100000), s: vec![], t: vec![] }); }
                if self.chance(0.2) { props.push(Prop { id: 0x03, n: 0, s: b"text/plain".to_vec(), t: vec![] }); }
                if self.chance(0.2) { props.push(Prop { id: 0x08, n: 0, s: b"reply/to".to_vec(), t: vec![] }); }
                if self.chance(0.2) { props.push(Prop { id: 0x09, n: 0, s: vec![9, 8, 7], t: vec![] }); }
                if self.chance(0.3) { props.push(user(1)); }
                if self.chance(0.1) { props.push(user(2)); }
                if self.chance(0.1) { props.push(Prop { id: 0x23, n: self.rng.gen_range(1..6), s: vec![], t: vec![] }); }
            }
            "subscribe" => {
                if self.chance(0.3) { props.push(Prop { id: 0x0B, n: self.rng.gen_range(1..20000), s: vec![], t: vec![] }); }
                if self.chance(0.3) { props.push(user(3)); }
            }
            _ => {
                if self.chance(0.3) { props.push(user(4)); }
            }
        }
        if self.chance(self.p.p_invalid_props) {
            // something that is not allowed here, or an illegal value
            let bad = match self.rng.gen_range(0..8) {
                6 | 7 => Prop { id: 0x23, n: 0, s: vec![], t: vec![] },
                0 => Prop { id: 0x21, n: 5, s: vec![], t: vec![] },
                1 => Prop { id: 0x11, n: 10, s: vec![], t: vec![] },
                2 => Prop { id: 0x01, n: 2, s: vec![], t: vec![] },
                3 => Prop { id: 0x0B, n: 0, s: vec![], t: vec![] },
                4 => Prop { id: 0x1F, n: 0, s: b"why".to_vec(), t: vec![] },
                _ => Prop { id: 0x24, n: 1, s: vec![], t: vec![] },
            };
            let ok_here = matches!((ctx, bad.id), ("subscribe", 0x0B)) && bad.n != 0;
            if !ok_here {
                props.push(bad);
            }
        }
        props
    }

    fn gen_call(&mut self) -> Step {
        let p = &self.p;
        let weights = [p.w_pub0, p.w_pub1, p.w_pub2, p.w_sub, p.w_unsub, p.w_poll, p.w_drive, p.w_recv, p.w_disconnect];
        let total: u32 = weights.iter().sum();
        let mut x = self.rng.gen_range(0..total);
        let mut which = 0;
        for (i, w) in weights.iter().enumerate() {
            if x < *w {
                which = i;
                break;
            }
            x -= w;
        }
        self.req_n += 1;
        let n = self.req_n;
        match which {
            0..=2 => {
                let plen = self.rng.gen_range(0..=self.p.payload_max);
                let mut payload: Vec<u8> = format!("m{n}:").into_bytes();
                payload.extend((0..plen).map(|_| self.rng.r#gen::<u8>()));
                // payloads that begin with zero bytes (or are empty): whatever is misread as a
                // length, an identifier or a flag byte reads as zero then
                if self.chance(0.12) {
                    let mut z = vec![0u8, 0u8];
                    z.extend_from_slice(&payload);
                    payload = z;
                } else if self.chance(0.05) {
                    payload.clear();
                }
                let mut props = self.gen_props("publish");
                let corr = if self.chance(0.15) {
                    props.retain(|p| p.id != 0x09);
                    Some(vec![0xC0, n as u8])
                } else {
                    None
                };
                Step::Publish {
                    qos: which as u8,
                    topic: if self.chance(0.1) { format!("t/{n}/\u{fc}/\u{20ac}").into_bytes() } else { format!("t/{n}").into_bytes() },
                    payload,
                    retain: self.chance(0.2),
                    props,
                    corr,
                    payload_fails: false,
                    corr_first: self.chance(0.5),
                }
            }
            3 => {
                let k = self.rng.gen_range(1..=3);
                let filters = (0..k)
                    .map(|i| Filter {
                        topic: format!("f/{n}/{i}/#").into_bytes(),
                        qos: self.rng.gen_range(0..3),
                        nl: self.rng.gen_bool(0.3),
                        rap: self.rng.gen_bool(0.3),
                        rh: self.rng.gen_range(0..3),
                    })
                    .collect();
                Step::Subscribe { filters, props: self.gen_props("subscribe") }
            }
            4 => {
                let k = self.rng.gen_range(1..=2);
                Step::Unsubscribe {
                    topics: (0..k).map(|i| format!("u/{n}/{i}").into_bytes()).collect(),
                    props: self.gen_props("unsubscribe"),
                }
            }
            5 => Step::Poll {},
            6 => Step::Drive {},
            7 => Step::Recv {},
            _ => Step::Disconnect { reason: None, props: None },
        }
    }
}

impl Director for RandomDirector {
    fn write(&mut self, _view: &View, offered: &[u8]) -> IoDec {
        // keep-alive traffic is no progress towards quiescence (benign continuation)
        if !(self.benign && offered == [0xC0, 0x00]) {
            self.idle = 0;
        }
        self.now_ms = _view.now_ms;
        if !self.benign && self.stall_loop_left > 0 && self.cur_cancel_safe {
            self.last_pending = 'w';
            return IoDec::Pending;
        }
        if !self.benign {
            if self.chance(self.p.p_fault) {
                return IoDec::Err;
            }
            if self.consecutive_pend < self.p.max_pend && self.chance(self.p.p_pend) {
                self.consecutive_pend += 1;
                self.last_pending = 'w';
                return IoDec::Pending;
            }
        }
        self.consecutive_pend = 0;
        let len = offered.len();
        // a transport that accepts nothing: only where no packet is half-written, so that the stream
        // stays well-formed if the client treats it (as it documents) as a non-fatal error
        if !self.benign && self.p.p_wzero > 0.0 && self.frame_buf.is_empty() && self.chance(self.p.p_wzero) {
            return IoDec::Zero;
        }
        if !self.benign && len > 1 {
            if self.chance(self.p.p_byte) {
                return IoDec::Ready(1);
            }
            if self.chance(self.p.p_partial) {
                return IoDec::Ready(self.rng.gen_range(1..len));
            }
        }
        IoDec::Ready(len)
    }

    fn read(&mut self, view: &View, want: usize) -> IoDec {
        if view.inbound_avail == 0 {
            self.last_pending = 'r';
            if !self.benign && self.chance(self.p.p_fault) {
                return if self.chance(0.5) { IoDec::Eof } else { IoDec::Err };
            }
            if self.benign && self.broker.closed && self.broker.outq.is_empty() {
                // a broker that has received (or sent) DISCONNECT closes the network connection
                return IoDec::Eof;
            }
            return IoDec::Pending;
        }
        if !(self.benign && self.ping_inbound) {
            self.idle = 0;
        }
        if !self.benign {
            if self.chance(self.p.p_fault) {
                return if self.chance(0.5) { IoDec::Eof } else { IoDec::Err };
            }
            if self.consecutive_pend < self.p.max_pend && self.chance(self.p.p_pend) {
                self.consecutive_pend += 1;
                self.last_pending = 'r';
                return IoDec::Pending;
            }
        }
        self.consecutive_pend = 0;
        let max = want.min(view.inbound_avail);
        if !self.benign && max > 1 && self.chance(self.p.p_partial) {
            return IoDec::Ready(self.rng.gen_range(1..=max));
        }
        IoDec::Ready(max)
    }

    fn flush(&mut self, _view: &View) -> IoDec {
        if !self.benign {
            if self.chance(self.p.p_fault) {
                return IoDec::Err;
            }
            if self.consecutive_pend < self.p.max_pend && self.chance(self.p.p_pend) {
                self.consecutive_pend += 1;
                self.last_pending = 'f';
                return IoDec::Pending;
            }
        }
        self.consecutive_pend = 0;
        IoDec::Ready(0)
    }

    fn wrote(&mut self, bytes: &[u8]) {
        // where the outbound stream stands relative to packet boundaries (whatever the broker does with it)
        self.frame_buf.extend_from_slice(bytes);
        while rc::take_packet(&mut self.frame_buf).is_some() {}
        self.broker_receive(bytes);
    }

    fn new_transport(&mut self) {
        self.frame_buf.clear();
        self.broker.inbuf.clear();
        self.broker.outq.clear();
        self.broker.hold_until = 0;
        self.broker.connected = false;
        self.broker.closed = false;
        self.conns += 1;
        self.cur_op = "conn".into();
        self.cur_cancel_safe = true;
    }

    fn spin_adv(&mut self, view: &View, n: u32) -> Option<u64> {
        let step = 1u64 << (n.saturating_sub(2)).min(8);
        let mut to = view.now_ms + step;
        if !self.broker.outq.is_empty() && self.broker.hold_until > view.now_ms {
            to = to.min(self.broker.hold_until);
        }
        Some(to)
    }

    fn spin_inject(&mut self, _view: &View, _n: u32) -> Option<Vec<u8>> {
        // while the client spins on an overdue timer the broker's (slow) answer may arrive
        self.now_ms = _view.now_ms;
        if !self.broker.outq.is_empty() && self.now_ms >= self.broker.hold_until && (self.benign || self.chance(0.5)) {
            let pkt = self.broker.outq.pop_front();
            self.ping_inbound = pkt.as_deref() == Some(&[0xD0, 0x00][..]);
            return pkt;
        }
        None
    }

    fn pending(&mut self, view: &View) -> PendDec {
        let waiting_read = self.last_pending == 'r' && view.inbound_avail == 0;
        if !self.benign && self.stall_loop_left > 0 && self.last_pending == 'w' && self.cur_cancel_safe {
            self.stall_loop_left -= 1;
            return PendDec::Cancel;
        }
        if self.last_pending != 'r' || view.inbound_avail > 0 {
            // a stalled link: time passes while a packet is half-written
            if !self.benign && self.p.time && self.stalls < 3 && self.chance(self.p.p_stall) {
                self.stalls += 1;
                return PendDec::Adv(view.now_ms + self.rng.gen_range(1..6000));
            }
            self.stalls = 0;
            // a write / flush / read that merely said "not yet": resume, or cancel
            if !self.benign && self.cur_cancel_safe && self.chance(self.p.p_cancel) {
                return PendDec::Cancel;
            }
            return PendDec::Resume;
        }
        debug_assert!(waiting_read);
        // the client waits for inbound data
        self.now_ms = view.now_ms;
        if !self.broker.outq.is_empty() && self.broker.hold_until > view.now_ms {
            // the broker's answer is slow: time passes first, but never past the deadline the
            // client asked to be woken at
            let mut to = self.broker.hold_until;
            if let Some(w) = view.wakes.first().copied() {
                if w > view.now_ms && to >= w && self.chance(0.6) {
                    // exact coincidence: the answer becomes readable at the very instant of the
                    // deadline the client asked to be woken at
                    self.broker.hold_until = 0;
                    if let Some(pkt) = self.broker.outq.pop_front() {
                        self.ping_inbound = pkt == [0xD0, 0x00];
                        return PendDec::AdvInject(w, pkt);
                    }
                }
                if w > view.now_ms {
                    to = to.min(w);
                } else {
                    // the client's deadline is overdue: it expects to be polled continuously
                    to = to.min(view.now_ms + self.rng.gen_range(20..250));
                }
            }
            return PendDec::Adv(to);
        }
        if let Some(pkt) = self.broker.outq.pop_front() {
            if !self.benign && self.chance(self.p.p_stale) && !self.broker.sent_acks.is_empty() {
                // a duplicate of an acknowledgement sent earlier, ahead of the real packet
                let i = self.rng.gen_range(0..self.broker.sent_acks.len());
                let dup = self.broker.sent_acks[i].clone();
                self.broker.outq.push_front(pkt);
                return PendDec::Inject(dup);
            }
            self.ping_inbound = pkt == [0xD0, 0x00];
            return PendDec::Inject(pkt);
        }
        if self.benign {
            let done = self.last_q && self.last_handles_done;
            if self.cur_op == "conn" {
                return PendDec::Cancel;
            }
            if done {
                self.drain_done = true;
                return PendDec::Cancel;
            }
            self.idle += 1;
            if self.idle > 50 {
                return PendDec::Cancel;
            }
            // Nothing in transit although operations are outstanding. After a scripted prefix
            // (behaviours of the specification, whose broker is not this one) an answer may simply
            // never have been sent: the continuation recovers by reconnecting (resumed). After a
            // random history the broker is this very model, which answers everything it received
            // on a live connection: there a reconnect would hide a client that is stuck (C16).
            if self.idle > 2 && !self.reconnected_once && self.heal {
                self.reconnected_once = true;
                self.force_drop = true;
                return PendDec::Cancel;
            }
            return match view.wakes.first() {
                Some(w) if *w > view.now_ms => PendDec::Adv(*w),
                Some(_) => PendDec::Adv(view.now_ms + 1000),
                None => {
                    self.force_drop = !self.reconnected_once && self.heal;
                    self.reconnected_once = true;
                    PendDec::Cancel
                }
            };
        }
        if self.chance(self.p.p_garbage) {
            // bytes no conformant broker sends: each is malformed in one of the ways C08 lists
            let g: Vec<u8> = match self.rng.gen_range(0..11) {
                0 => vec![0x30, 0x80, 0x08],
                1 => vec![0x30, 0xff, 0xff, 0xff, 0xff],
                2 => vec![0x00, 0x00],
                3 => vec![0x82, 0x00],
                4 => vec![0x41, 0x02, 0x00, 0x01],
                5 => vec![0x60, 0x02, 0x00, 0x01],
                6 => vec![0x36, 0x05, 0x00, 0x01, 0x41, 0x00, 0x01],
                7 => vec![0x30, 0x03, 0x00, 0x05, 0x41],
                8 => vec![0x40, 0x06, 0x00, 0x01, 0x00, 0x00, 0xAA, 0xBB],
                9 => vec![0x30, 0x05, 0x00, 0x02, 0xC0, 0x80, 0x00],
                _ => vec![0xD0, 0x80, 0x00],
            };
            self.broker.closed = true;
            return PendDec::Inject(g);
        }
        if self.cur_op != "conn" && self.chance(self.p.p_inbound) {
            if let Some(pkt) = self.broker_publish() {
                return PendDec::Inject(pkt);
            }
        }
        if self.chance(self.p.p_broker_disconnect) {
            // every form and class of reason: none, success class, failure class, with properties
            self.broker.closed = true;
            let pkt = match self.rng.gen_range(0..7) {
                0 => vec![0xE0, 0x00],
                1 => rc::disconnect(0x00),
                2 => rc::disconnect(0x04),
                3 => rc::disconnect(0x8B),
                4 => rc::disconnect(0x8E),
                5 => vec![0xE0, 0x02, 0x8D, 0x00],
                _ => vec![0xE0, 0x09, 0x81, 0x07, 0x1F, 0x00, 0x04, b'g', b'o', b'n', b'e'],
            };
            return PendDec::Inject(pkt);
        }
        if self.p.time {
            if let Some(w) = view.wakes.first().copied() {
                self.idle += 1;
                if w <= view.now_ms {
                    // the deadline the client names is already over (it waits for a PINGRESP while
                    // its next ping is due): real time simply goes on
                    return PendDec::Adv(view.now_ms + self.rng.gen_range(20..250));
                }
                if self.idle < 6 || self.cur_op == "conn" {
                    let to = match self.rng.gen_range(0..6) {
                        0 if w > view.now_ms + 1 => w - 1,
                        1 => w + 1,
                        2 if w > view.now_ms + 2 => self.rng.gen_range(view.now_ms + 1..w),
                        _ => w,
                    };
                    return PendDec::Adv(to.max(view.now_ms + 1));
                }
            }
        }
        if self.cur_cancel_safe || self.cur_op == "conn" {
            PendDec::Cancel
        } else {
            PendDec::Resume
        }
    }

    fn returned(&mut self, op: &str, result: &Value, obs: &Value) {
        self.last_q = obs["q"].as_bool().unwrap_or(false);
        self.last_handles_done = obs["h"]
            .as_array()
            .map(|h| h.iter().all(|s| s != "p"))
            .unwrap_or(true);
        let _ = op;
        // D12: a connection from the non-benign phase may carry a Maximum Packet Size below a
        // retained packet; the benign continuation reconnects (a benign broker announces none)
        if self.benign && result["err"] == "PacketTooLarge" {
            self.force_drop = true;
        }
        if self.benign && op == "publish" && !result["err"].is_null() {
            self.burst_done = true;
        }
        self.last_pending = ' ';
        self.consecutive_pend = 0;
    }

    fn top(&mut self, view: &View) -> TopDec {
        self.last_pending = ' ';
        if self.calls_left == 0 && !self.benign {
            if !self.p.drain {
                return TopDec::End;
            }
            self.benign = true;
            return TopDec::Note(json!({"e":"drainstart"}));
        }
        if self.benign {
            if self.drain_done || self.drain_polls > 60 {
                if !self.noted {
                    self.noted = true;
                    return TopDec::Note(json!({"e":"drainend","done":self.drain_done}));
                }
                return TopDec::End;
            }
            if !view.has_conn {
                if self.conns >= self.p.max_conns + 3 {
                    self.drain_polls = 1000;
                    return self.top(view);
                }
                self.cur_op = "conn".into();
                return TopDec::Call(Step::Conn { healthy: true });
            }
            if !view.live || self.force_drop {
                self.force_drop = false;
                return TopDec::DropConn;
            }
            if self.probe && self.probe_step < 6 {
                // PUBREL sweep over identifiers 1..3: inject, then one poll to answer it
                self.probe_step += 1;
                if self.probe_step % 2 == 1 {
                    let id = (self.probe_step / 2 + 1) as u16;
                    return TopDec::Inject(rc::ack(6, id, 0, 2, &[]));
                }
                self.cur_op = "poll".into();
                self.cur_cancel_safe = true;
                return TopDec::Call(Step::Poll {});
            }
            if self.probe && !self.burst_done && self.probe_step < 6 + 10 {
                self.probe_step += 1;
                self.req_n += 1;
                let n = self.req_n;
                self.cur_op = "other".into();
                return TopDec::Call(Step::Publish {
                    qos: 1,
                    topic: format!("probe/{n}").into_bytes(),
                    payload: format!("probe{n}").into_bytes(),
                    retain: false,
                    props: vec![],
                    corr: None,
                    payload_fails: false,
                    corr_first: false,
                });
            }
            self.drain_polls += 1;
            self.cur_op = "poll".into();
            self.cur_cancel_safe = true;
            return TopDec::Call(Step::Poll {});
        }
        if !view.has_conn {
            if self.conns >= self.p.max_conns {
                self.calls_left = 0;
                return self.top(view);
            }
            if self.p.time && self.chance(0.3) {
                return TopDec::Adv(view.now_ms + self.rng.gen_range(1..20000));
            }
            if self.chance(self.p.p_setid) {
                // bring the identifier counter (back) onto something in flight, or just before it
                let mut ids: Vec<u16> = Vec::new();
                if let Some(snap) = &view.snap {
                    for key in ["ret", "rel"] {
                        if let Some(list) = snap[key].as_array() {
                            ids.extend(list.iter().filter_map(|e| e[0].as_u64()).map(|v| v as u16));
                        }
                    }
                }
                // an exchange the broker holds open and the client no longer knows: first of all onto that
                let mut lost: Vec<u16> = self.broker.in_q2.iter().copied().filter(|i| !ids.contains(i)).collect();
                lost.sort_unstable();
                if !lost.is_empty() {
                    let id = lost[self.rng.gen_range(0..lost.len())];
                    return TopDec::SetNextId(id);
                }
                // the end of the 16-bit range: the next allocations wrap (zero is no identifier)
                if self.chance(0.25) {
                    return TopDec::SetNextId(65535 - self.rng.gen_range(0..3));
                }
                // exchanges the broker still holds open (QoS 2 publishes it has answered with PUBREC
                // and not seen the PUBREL of): the client must hold them too
                ids.extend(self.broker.in_q2.iter().copied());
                ids.extend(self.broker.wire_open.iter().copied());
                if !ids.is_empty() {
                    let id = ids[self.rng.gen_range(0..ids.len())];
                    let id = if self.chance(0.3) && id > 1 { id - 1 } else { id };
                    return TopDec::SetNextId(id);
                }
            }
            self.cur_op = "conn".into();
            self.cur_cancel_safe = true;
            return TopDec::Call(Step::Conn { healthy: false });
        }
        if !view.live && !self.chance(self.p.p_dead_call) {
            return TopDec::DropConn;
        }
        if self.chance(self.p.p_drop) {
            return TopDec::DropConn;
        }
        if self.p.time && self.chance(0.1) {
            return TopDec::Adv(view.now_ms + self.rng.gen_range(1..3000));
        }
        if self.chance(0.15) {
            if let Some(pkt) = self.broker.outq.pop_front() {
                return TopDec::Inject(pkt);
            }
        }
        if self.p.p_stall_loop > 0.0 && self.stall_loop_left == 0 && self.chance(self.p.p_stall_loop) {
            self.stall_loop_left = self.rng.gen_range(9..15);
        }
        self.calls_left -= 1;
        let call = self.gen_call();
        // QoS 0 publishes are documented as not cancel-safe; with auto-downgrade any publish may
        // become one
        self.cur_cancel_safe = !matches!(&call, Step::Publish { qos: 0, .. })
            && !(self.downgrade && matches!(&call, Step::Publish { .. }));
        self.cur_op = match &call {
            Step::Poll {} => "poll",
            Step::Recv {} => "recv",
            _ => "other",
        }
        .into();
        TopDec::Call(call)
    }
}

// ------------------------------------------------------------------------------------------------
// Twin runs (C13 cancellation safety, C15 fragmentation independence)

/// How the variant run of a twin pair differs from its base run.
#[derive(Clone, Copy, PartialEq, Debug)]
pub enum TwinKind {
    /// everything completes at once, inbound packets arrive whole
    Base,
    /// C13: pending I/O, partial writes and cancellation at pending points; a cancelled call is
    /// followed by a continuing call (poll -> poll, anything else -> drive)
    Cancel,
    /// C15: reads and writes are fragmented arbitrarily (down to one byte), nothing is cancelled
    Fragment,
    /// C15 with a slow link: as Fragment, and up to two stalls (a write stays pending while
    /// 1.1 - 2.4 s pass); the session uses a 2 s keep-alive, so PINGREQs may appear in the variant
    /// only (they are left out of the comparison)
    Stall,
    /// C15 x C13: chosen program steps are cancelled at a write that stays pending; in the base
    /// run (`false`) nothing of the packet was accepted before, in the variant (`true`) a proper
    /// prefix was.  No continuation call: the next program step goes on.
    FragCancel(bool),
}

/// Deterministic benign broker + fixed program; only the transport schedule differs between the
/// runs of a pair.
pub struct TwinDirector {
    pub inner: RandomDirector,
    program: VecDeque<Step>,
    kind: TwinKind,
    continuation: Option<Step>,
    cur_tag: Vec<u8>,
    cur_enqueued: bool,
    cur_index: usize,
    next_index: usize,
    /// program indices of requests that were cancelled before they were enqueued
    pub dropped: std::rc::Rc<std::cell::RefCell<Vec<usize>>>,
    connected: bool,
    cancels_left: u32,
    stalls_left: u32,
    stall_now: bool,
    /// FragCancel: program indices whose call is cancelled at a pending write
    /// programs: the broker's PUBCOMPs are being held back
    hold: bool,
    held: VecDeque<Vec<u8>>,
    cut_steps: Vec<usize>,
    cut_taken: bool,
    cut_pending: bool,
    cut_done: bool,
    cur_cuttable: bool,
}

impl TwinDirector {
    pub fn new(seed: u64, program: Vec<Step>, kind: TwinKind, rx: usize,
               dropped: std::rc::Rc<std::cell::RefCell<Vec<usize>>>) -> Self {
        let mut inner = RandomDirector::benign_tail(seed, rx);
        inner.benign = true;
        inner.probe = false;
        inner.broker.has_session = false;
        // with stalls the variant run sends PINGREQs the base run does not; answering them would
        // shift which poll reads which inbound packet (the stalls are too short for a timeout)
        inner.broker.mute_ping = kind == TwinKind::Stall;
        // a CONNACK whose body is not all zeros, so that a cut inside it is visible; the values leave
        // the behaviour of the session as it is without them
        inner.connack_extra = vec![
            Prop { id: 0x1F, n: 0, s: b"twin".to_vec(), t: vec![] },
            Prop { id: 0x21, n: 8, s: vec![], t: vec![] },
            Prop { id: 0x26, n: 0, s: b"k".to_vec(), t: b"v".to_vec() },
        ];
        Self {
            inner,
            program: program.into(),
            kind,
            continuation: None,
            cur_tag: vec![],
            cur_enqueued: false,
            cur_index: 0,
            next_index: 0,
            dropped,
            connected: false,
            cancels_left: 6,
            stalls_left: 2,
            stall_now: false,
            hold: false,
            held: VecDeque::new(),
            cut_steps: Vec::new(),
            cut_taken: false,
            cut_pending: false,
            cut_done: false,
            cur_cuttable: false,
        }
    }

    /// FragCancel: the same steps are cut in the base and in the variant run
    pub fn with_cuts(mut self, seed: u64) -> Self {
        let mut r = StdRng::seed_from_u64(seed ^ 0x5eed_c0de);
        let mut idx = 0usize;
        for step in self.program.iter() {
            let cuttable = matches!(step, Step::Publish { qos: 1..=2, .. } | Step::Subscribe { .. } | Step::Unsubscribe { .. } | Step::Poll {});
            if cuttable && self.cut_steps.len() < 6 && r.gen_bool(0.3) {
                self.cut_steps.push(idx);
            }
            idx += 1;
        }
        self
    }

    fn tag_of(step: &Step) -> Vec<u8> {
        match step {
            Step::Publish { topic, .. } => topic.clone(),
            Step::Subscribe { filters, .. } => filters.first().map(|f| f.topic.clone()).unwrap_or_default(),
            Step::Unsubscribe { topics, .. } => topics.first().cloned().unwrap_or_default(),
            _ => vec![],
        }
    }

    fn contains(hay: &[u8], needle: &[u8]) -> bool {
        !needle.is_empty() && hay.windows(needle.len()).any(|w| w == needle)
    }
}

impl Director for TwinDirector {
    fn write(&mut self, _view: &View, offered: &[u8]) -> IoDec {
        if Self::contains(offered, &self.cur_tag) {
            self.cur_enqueued = true;
        }
        match self.kind {
            TwinKind::Base => IoDec::Ready(offered.len()),
            TwinKind::FragCancel(variant) => {
                if self.cur_cuttable && !self.cut_done && self.cut_steps.contains(&self.cur_index) {
                    if variant && !self.cut_taken && offered.len() > 1 {
                        self.cut_taken = true;
                        return IoDec::Ready(self.inner.rng.gen_range(1..offered.len()));
                    }
                    self.cut_pending = true;
                    self.inner.last_pending = 'w';
                    return IoDec::Pending;
                }
                IoDec::Ready(offered.len())
            }
            TwinKind::Cancel | TwinKind::Fragment | TwinKind::Stall => {
                if self.kind == TwinKind::Stall && self.stalls_left > 0 && self.inner.consecutive_pend < 1
                    && self.inner.chance(0.2)
                {
                    self.inner.consecutive_pend += 1;
                    self.inner.last_pending = 'w';
                    self.stall_now = true;
                    return IoDec::Pending;
                }
                if self.kind == TwinKind::Cancel && self.inner.consecutive_pend < 1 && self.inner.chance(0.3) {
                    self.inner.consecutive_pend += 1;
                    self.inner.last_pending = 'w';
                    return IoDec::Pending;
                }
                self.inner.consecutive_pend = 0;
                if offered.len() > 1 && self.inner.chance(0.5) {
                    let k = if self.inner.chance(0.4) { 1 } else { self.inner.rng.gen_range(1..offered.len()) };
                    return IoDec::Ready(k);
                }
                IoDec::Ready(offered.len())
            }
        }
    }

    fn read(&mut self, view: &View, want: usize) -> IoDec {
        if view.inbound_avail == 0 {
            self.inner.last_pending = 'r';
            return IoDec::Pending;
        }
        let max = want.min(view.inbound_avail);
        match self.kind {
            TwinKind::Base => IoDec::Ready(max),
            _ => {
                if self.kind == TwinKind::Cancel && self.inner.consecutive_pend < 1 && self.inner.chance(0.25) {
                    self.inner.consecutive_pend += 1;
                    self.inner.last_pending = 'R';
                    return IoDec::Pending;
                }
                self.inner.consecutive_pend = 0;
                if max > 1 && self.inner.chance(0.6) {
                    let k = if self.inner.chance(0.5) { 1 } else { self.inner.rng.gen_range(1..=max) };
                    return IoDec::Ready(k);
                }
                IoDec::Ready(max)
            }
        }
    }

    fn flush(&mut self, _view: &View) -> IoDec {
        if self.kind == TwinKind::Cancel && self.inner.consecutive_pend < 1 && self.inner.chance(0.25) {
            self.inner.consecutive_pend += 1;
            self.inner.last_pending = 'f';
            return IoDec::Pending;
        }
        self.inner.consecutive_pend = 0;
        IoDec::Ready(0)
    }

    fn wrote(&mut self, bytes: &[u8]) {
        self.inner.broker_receive(bytes);
    }

    fn new_transport(&mut self) {
        self.inner.new_transport();
    }

    fn pending(&mut self, view: &View) -> PendDec {
        let idle_read = self.inner.last_pending == 'r' && view.inbound_avail == 0;
        if idle_read {
            // the broker answers in order, one packet per wait
            if let Some(pkt) = self.inner.broker.outq.pop_front() {
                return PendDec::Inject(pkt);
            }
            // nothing will ever arrive: end this wait (both runs of the pair do the same)
            return PendDec::Cancel;
        }
        if self.cut_pending {
            self.cut_pending = false;
            self.cut_done = true;
            return PendDec::Cancel;
        }
        if self.stall_now {
            self.stall_now = false;
            self.stalls_left -= 1;
            return PendDec::Adv(view.now_ms + self.inner.rng.gen_range(1100..2400));
        }
        if self.kind == TwinKind::Cancel && self.cancels_left > 0 && self.inner.cur_op != "conn"
            && self.inner.cur_cancel_safe && self.inner.chance(0.45)
        {
            self.cancels_left -= 1;
            if !self.cur_tag.is_empty() && !self.cur_enqueued {
                self.dropped.borrow_mut().push(self.cur_index);
            }
            self.continuation = Some(if self.inner.cur_op == "poll" { Step::Poll {} }
                                     else if self.inner.cur_op == "recv" { Step::Recv {} }
                                     else if self.inner.cur_op == "disconnect" { Step::Disconnect { reason: None, props: None } }
                                     else { Step::Drive {} });
            return PendDec::Cancel;
        }
        PendDec::Resume
    }

    fn returned(&mut self, op: &str, result: &Value, obs: &Value) {
        self.inner.returned(op, result, obs);
        if op == "conn" {
            self.connected = result["ok"].is_string();
        }
    }

    fn top(&mut self, view: &View) -> TopDec {
        self.inner.last_pending = ' ';
        if !view.has_conn {
            let mut redial = false;
            if let Some(Step::Reconnect { setid, .. }) = self.program.front_mut() {
                if let Some(id) = setid.take() {
                    return TopDec::SetNextId(id);
                }
            }
            if let Some(Step::Reconnect { connack, .. }) = self.program.front() {
                self.inner.connack_extra = connack.clone();
                self.program.pop_front();
                self.next_index += 1;
                self.connected = false;
                redial = true;
            }
            if self.connected || (self.program.is_empty() && !redial) {
                return TopDec::End;
            }
            self.inner.cur_op = "conn".into();
            self.inner.cur_cancel_safe = false;
            return TopDec::Call(Step::Conn { healthy: true });
        }
        if self.continuation.is_none() && matches!(self.program.front(), Some(Step::Reconnect { .. })) {
            // what the broker still had to say is lost with the connection
            self.inner.broker.outq.clear();
            self.held.clear();
            return TopDec::DropConn;
        }
        // the broker's answers enter the inbound stream as soon as they exist, so that their place
        // relative to the program does not depend on how the transport schedule went
        while let Some(pkt) = self.inner.broker.outq.pop_front() {
            if self.hold && pkt[0] >> 4 == 7 {
                self.held.push_back(pkt);
                continue;
            }
            return TopDec::Inject(pkt);
        }
        if self.continuation.is_none() {
            if let Some(Step::Hold { on }) = self.program.front() {
                self.hold = *on;
                self.program.pop_front();
                self.next_index += 1;
                if !self.hold {
                    while let Some(pkt) = self.held.pop_back() {
                        self.inner.broker.outq.push_front(pkt);
                    }
                }
                return self.top(view);
            }
        }
        let step = match self.continuation.take() {
            Some(step) => {
                self.cur_tag.clear();
                step
            }
            None => match self.program.pop_front() {
                Some(Step::B { bytes }) => {
                    self.next_index += 1;
                    return TopDec::Inject(bytes);
                }
                Some(step) => {
                    self.cur_index = self.next_index;
                    self.next_index += 1;
                    self.cur_tag = Self::tag_of(&step);
                    self.cur_enqueued = false;
                    self.cut_taken = false;
                    self.cut_done = false;
                    self.cur_cuttable = matches!(step, Step::Publish { qos: 1..=2, .. } | Step::Subscribe { .. }
                        | Step::Unsubscribe { .. } | Step::Poll {});
                    step
                }
                None => return TopDec::End,
            },
        };
        self.inner.cur_cancel_safe = !matches!(&step, Step::Publish { qos: 0, .. });
        self.inner.cur_op = match &step {
            Step::Poll {} => "poll",
            Step::Recv {} => "recv",
            Step::Disconnect { .. } => "disconnect",
            _ => "other",
        }
        .into();
        TopDec::Call(step)
    }
}

// ------------------------------------------------------------------------------------------------
// Aged vs. fresh twins (C17: capacity is fully recovered)

/// The requests whose answers are compared between an aged, quiescent session and a brand-new
/// one: sizes around the arena-filling packet for every QoS, then as many small requests of each
/// kind as the session takes without an acknowledgement in between.
pub fn capacity_program(tx: usize) -> Vec<Step> {
    let mut v = Vec::new();
    let publish = |qos: u8, topic: &str, len: usize| Step::Publish {
        qos,
        topic: topic.as_bytes().to_vec(),
        payload: (0..len).map(|i| (i % 251) as u8).collect(),
        retain: false,
        props: vec![],
        corr: None,
        payload_fails: false,
        corr_first: false,
    };
    for qos in [1u8, 2, 0] {
        // reserved fixed header (5) + topic "c" (3) + identifier (2, QoS > 0) + property length (1)
        let over = if qos > 0 { 11 } else { 9 };
        let fit = tx.saturating_sub(over);
        for d in [-3i64, -1, 0, 1, 2] {
            let len = fit as i64 + d;
            if len < 0 {
                continue;
            }
            v.push(publish(qos, "c", len as usize));
            for _ in 0..3 {
                v.push(Step::Poll {});
            }
        }
    }
    for qos in [1u8, 2] {
        for i in 0..10 {
            v.push(publish(qos, &format!("n{i}"), 1));
        }
        for _ in 0..26 {
            v.push(Step::Poll {});
        }
    }
    for i in 0..10 {
        v.push(Step::Subscribe {
            filters: vec![crate::types::Filter { topic: format!("s/{i}").into_bytes(), qos: 1, nl: false, rap: false, rh: 0 }],
            props: vec![],
        });
    }
    for _ in 0..14 {
        v.push(Step::Poll {});
    }
    for i in 0..5 {
        v.push(publish(1, &format!("m{i}"), 2));
        v.push(publish(2, &format!("m{i}"), 2));
        v.push(Step::Unsubscribe { topics: vec![format!("u/{i}").into_bytes()], props: vec![] });
    }
    for _ in 0..30 {
        v.push(Step::Poll {});
    }
    v
}

/// Runs a random history to quiescence (or nothing at all: the fresh twin), drops the connection,
/// reconnects to a deterministic benign broker and runs the capacity program.
pub struct AgedDirector {
    hist: Option<RandomDirector>,
    cap: TwinDirector,
    phase: u8,
    conn_tries: u32,
    /// the history was drained to a quiescent session (otherwise the pair is not compared)
    pub drained: std::rc::Rc<std::cell::Cell<bool>>,
    reconnect: bool,
}

impl AgedDirector {
    /// `reconnect`: always start the capacity program on a new (resumed) connection; otherwise the
    /// connection the history ended on is kept if it is alive (the history's CONNACKs must then
    /// carry no limits, like the fresh twin's).
    pub fn new(seed: u64, hist: Option<RandomDirector>, tx: usize, rx: usize, reconnect: bool,
               drained: std::rc::Rc<std::cell::Cell<bool>>) -> Self {
        let nobody = std::rc::Rc::new(std::cell::RefCell::new(Vec::new()));
        let mut cap = TwinDirector::new(seed, capacity_program(tx), TwinKind::Base, rx, nobody);
        cap.inner.fixed_acks = true;
        // the aged session resumes (its CONNECT does not ask for a clean start)
        cap.inner.broker.has_session = hist.is_some();
        let phase = if hist.is_some() { 0 } else { 2 };
        drained.set(hist.is_none());
        Self { hist, cap, phase, conn_tries: 0, drained, reconnect }
    }

    fn cur(&mut self) -> &mut dyn Director {
        if self.phase == 0 {
            self.hist.as_mut().unwrap()
        } else {
            &mut self.cap
        }
    }
}

impl Director for AgedDirector {
    fn write(&mut self, view: &View, offered: &[u8]) -> IoDec {
        self.cur().write(view, offered)
    }
    fn read(&mut self, view: &View, want: usize) -> IoDec {
        self.cur().read(view, want)
    }
    fn flush(&mut self, view: &View) -> IoDec {
        self.cur().flush(view)
    }
    fn pending(&mut self, view: &View) -> PendDec {
        self.cur().pending(view)
    }
    fn wrote(&mut self, bytes: &[u8]) {
        self.cur().wrote(bytes)
    }
    fn flushed(&mut self) {
        self.cur().flushed()
    }
    fn returned(&mut self, op: &str, result: &Value, obs: &Value) {
        self.cur().returned(op, result, obs)
    }
    fn new_transport(&mut self) {
        self.cur().new_transport()
    }
    fn spin_adv(&mut self, view: &View, n: u32) -> Option<u64> {
        self.cur().spin_adv(view, n)
    }
    fn spin_inject(&mut self, view: &View, n: u32) -> Option<Vec<u8>> {
        self.cur().spin_inject(view, n)
    }
    fn top(&mut self, view: &View) -> TopDec {
        match self.phase {
            0 => {
                let d = self.hist.as_mut().unwrap().top(view);
                if matches!(d, TopDec::End) {
                    self.drained.set(self.hist.as_ref().unwrap().drain_done);
                    self.phase = 1;
                    return self.top(view);
                }
                d
            }
            1 => {
                self.phase = 2;
                if view.has_conn && view.live && !self.reconnect {
                    // carry on with the connection the history ended on
                    self.cap.connected = true;
                    self.cap.inner.broker.connected = true;
                    return self.top(view);
                }
                if view.has_conn {
                    return TopDec::DropConn;
                }
                self.top(view)
            }
            2 => {
                if self.cap.connected {
                    self.phase = 3;
                    return TopDec::Note(json!({"e":"capstart"}));
                }
                self.conn_tries += 1;
                if self.conn_tries > 2 {
                    self.drained.set(false);
                    return TopDec::End;
                }
                self.cap.top(view)
            }
            _ => self.cap.top(view),
        }
    }
}

/// A random program for a twin pair: publishes / subscribes / unsubscribes, polls, and
/// broker-initiated publishes injected at fixed places.
pub fn twin_program(seed: u64, len: usize, rx: usize) -> Vec<Step> {
    twin_program_with(seed, len, rx, 2)
}

/// `w_pub0`: weight of QoS 0 publishes (they write directly to the transport: what a cancelled
/// operation left half-written has to be finished first)
pub fn twin_program_with(seed: u64, len: usize, rx: usize, w_pub0: u32) -> Vec<Step> {
    let mut d = RandomDirector::new(seed, Profile { w_disconnect: 0, w_recv: 0, w_pub0, ..Profile::default() }, rx, false);
    d.broker.connected = true;
    let mut out = Vec::new();
    for _ in 0..len {
        if d.chance(0.25) {
            if let Some(pkt) = d.broker_publish() {
                // the program's broker traffic is fixed; forget the flow bookkeeping
                d.broker.out_q1.clear();
                d.broker.out_q2_pub.clear();
                // now and then a two-byte packet right in front of it (an unsolicited PINGRESP is
                // ignored): fragmentation then cuts inside the shortest packet there is
                if d.chance(0.35) {
                    out.push(Step::B { bytes: vec![0xD0, 0x00] });
                }
                out.push(Step::B { bytes: pkt });
                out.push(Step::Poll {});
                continue;
            }
        }
        out.push(d.gen_call());
    }
    // let everything settle: each poll handles one inbound packet, a QoS 2 exchange needs two of
    // them, and the runs of a pair must both get to the end of every exchange (a run with extra
    // continuation calls would otherwise be further along than its twin)
    for _ in 0..(12 + 3 * len) {
        out.push(Step::Poll {});
    }
    out
}
