SPECIFICATION Spec
CONSTANTS
  MaxOps = 1
  MaxConns = 1
  IdMax = 3
  Cap = 1
  CtlCap = 2
  RMs = {1}
  MaxIn = 0
  MaxFail = 0
  MaxQ0 = 0
  Kinds = {"P1"}
  Parts = {TRUE, FALSE}
  MaxCancel = 0
  MaxFault = 0
  Zeros = FALSE
  Dev = {}
  Record = FALSE
VIEW View
CHECK_DEADLOCK FALSE
