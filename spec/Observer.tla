------------------------------ MODULE Observer ------------------------------
(***************************************************************************)
(* Trace specification WITHOUT a client model.  It consumes the event log   *)
(* of one or more real executions of minimq (IOEnv.TRACE, NDJSON) and        *)
(* rebuilds, from the logged events alone, the observable history H: the    *)
(* bytes the transport accepted, framed and decoded with MqttCodec; the      *)
(* bytes the client consumed; every API call, result, cancellation and       *)
(* status answer; virtual time.  Every listed property is evaluated as a     *)
(* monitor over that history after every event.  Because there is no client  *)
(* model here, this specification accepts every well-formed log: a verdict    *)
(* never depends on a model agreeing with the code, only on the property.    *)
(*                                                                           *)
(* A failed check appends [p, l, why] to H.v (p = property id, l = line of   *)
(* the event, why = explanation) unless it matches the observable signature  *)
(* of an OPEN known finding, in which case it goes to H.kf.  Both are         *)
(* printed; Inv_Cxx state the properties as ordinary invariants.             *)
(***************************************************************************)
EXTENDS MqttCodec, Integers, TLC, Json, IOUtils

CONSTANT OpenKF          \* names of known findings currently listed as open

Rec == ndJsonDeserialize(IOEnv.TRACE)

VARIABLE H

---------------------------------------------------------------------------
\* small helpers

Viol(h, p, why) == [h EXCEPT !.v = Append(@, [p |-> p, l |-> h.l, why |-> why])]
Check(h, cond, p, why) == IF cond THEN h ELSE Viol(h, p, why)
\* a failed check that matches the signature `sig` of known finding `name`
CheckKF(h, cond, p, why, name, sig) ==
  IF cond THEN h
  ELSE IF sig /\ name \in OpenKF
       THEN [h EXCEPT !.kf = Append(@, [p |-> p, l |-> h.l, kf |-> name, why |-> why])]
       ELSE Viol(h, p, why)

AllProps == {"C01", "C02", "C03", "C04", "C05", "C06", "C07", "C08", "C09", "C10", "C11", "C12",
             "C13", "C14", "C15", "C16", "C17", "C18", "C19", "C20"}
\* count one non-trivial evaluation of property p's monitor (vacuity bookkeeping)
Tick(h, p) == [h EXCEPT !.n[p] = @ + 1]
Tick2(h, p, q) == Tick(Tick(h, p), q)

Max(a, b) == IF a > b THEN a ELSE b
Min(a, b) == IF a < b THEN a ELSE b

U32Sat(s) == IF Len(s) # 4 THEN 0 ELSE IF s[1] >= 128 THEN 2147483647 ELSE U32(s, 1)

\* retransmissions may differ from the first transmission only in the DUP bit
ClearDup(pkt) == [pkt EXCEPT ![1] = IF (@ \div 8) % 2 = 1 THEN @ - 8 ELSE @]

NoOp == [name |-> "", l |-> 0]

PropSet(props) == {props[k] : k \in 1..Len(props)}

\* property legality for client requests (MQTT 5 section 2.2.2.2 and 3.x.2)
ReqPropsOk(props, ctx) ==
  \A k \in 1..Len(props) :
    /\ ctx \in PropCtx(props[k].id)
    /\ ~(ctx = PUBLISH /\ props[k].id = 11)        \* subscription identifier: server only
    /\ PropValueOk(props[k])

Local == {"NotReady", "InvalidRequest", "InflightExhausted", "BufferTooSmall",
          "PacketTooLarge", "Payload"}
RefusalProperty(err) ==
  CASE err = "NotReady" -> "C06"
    [] err = "InflightExhausted" -> "C06"
    [] err = "InvalidRequest" -> "C19"
    [] err = "PacketTooLarge" -> "C14"
    [] OTHER -> "C09"

---------------------------------------------------------------------------
\* initial history for one run (a `cfg` event starts a run)

NoAck == [have |-> FALSE, sp |-> 0, rc |-> 0, rm |-> 8, maxpkt |-> -1, maxqos |-> 2,
          ska |-> -1, aci |-> << >>, hasaci |-> FALSE, propsok |-> TRUE]

EmptySum == [out |-> << >>, msgs |-> << >>, res |-> << >>]

Fresh(l, cfg, prev) ==
  [l |-> l, cfg |-> cfg, now |-> 0,
   ci |-> 0, up |-> FALSE, op |-> NoOp,
   wtail |-> << >>, wn |-> 0, wdisc |-> FALSE, lastout |-> 0,
   rtail |-> << >>, btail |-> << >>,
   ack |-> NoAck,
   epoch |-> 0, everOk |-> FALSE, cleanDc |-> FALSE,
   cid |-> cfg.client_id, kaAdv |-> cfg.ka, rejSka |-> -1, K |-> 0,
   reqs |-> << >>, hmap |-> << >>, recn |-> 0,
   owed |-> << >>, aw |-> 0, sids |-> {},
   unres |-> {}, dcids |-> {}, dcconn |-> FALSE, pe |-> "", pio |-> "", c10off |-> FALSE, dcan |-> FALSE, taint |-> 0, connectLen |-> 0, d9b |-> FALSE,
   lastDone |-> 0, afterPing |-> FALSE, pingAt |-> -1, pingDoneAt |-> -1, pingOut |-> FALSE, pcan |-> FALSE, pfrag |-> FALSE, cmid |-> FALSE, overslept |-> TRUE, wake |-> -1,
   dead |-> FALSE, ioDead |-> << 0, 0, 0 >>, lastio |-> << 0, 0, 0 >>,
   sum |-> EmptySum, prev |-> prev, mark |-> 0,
   lastobs |-> [live |-> FALSE, q |-> TRUE, h |-> << >>],
   n |-> [p \in AllProps |-> 0], runs |-> 0,
   v |-> << >>, kf |-> << >>]

---------------------------------------------------------------------------
\* request bookkeeping

ReqKindOfQos(q) == IF q = 1 THEN "P1" ELSE "P2"
IsPub(r) == r.kind \in {"P1", "P2"}

\* a request is in flight: accepted by the client in the current session epoch and not yet
\* finally acknowledged
InFlight(h, k) ==
  LET r == h.reqs[k] IN r.st = "acc" /\ r.ep = h.epoch /\ r.ph # "done"

\* effective QoS of a publish request (QoS auto-downgrade against the broker's Maximum QoS)
EffQos(h, q) == IF h.cfg.downgrade /\ h.ack.have /\ q > h.ack.maxqos THEN h.ack.maxqos ELSE q

\* properties as they must appear on the wire: `correlate` puts the correlation data first
WireProps(e) == IF e.hascorr THEN << Prop(9, 0, e.corr, << >>) >> \o e.props ELSE e.props

NewReq(h, kind, e) ==
  [kind |-> kind, l |-> h.l, ep |-> h.epoch, cc |-> h.ci, st |-> "pend", ph |-> "new",
   id |-> 0, bytes |-> << >>, sc |-> 0, n |-> 0, rsc |-> 0, rn |-> 0, recseq |-> 0, donel |-> 0,
   refp |-> "", hidx |-> -1, e |-> e]

PubMatches(r, d) ==
  /\ IsPub(r)
  /\ r.e.topic = d.topic /\ r.e.payload = d.payload
  /\ (IF r.e.retain THEN 1 ELSE 0) = d.rt
  /\ (IF r.kind = "P1" THEN 1 ELSE 2) = d.q
  /\ WireProps(r.e) = d.props

SubMatches(r, d) ==
  /\ r.kind = "SUB" /\ d.t = SUBSCRIBE
  /\ r.e.props = d.props
  /\ Len(r.e.filters) = Len(d.filters)
  /\ \A k \in 1..Len(d.filters) :
       /\ r.e.filters[k].topic = d.filters[k].topic /\ r.e.filters[k].qos = d.filters[k].qos
       /\ r.e.filters[k].nl = d.filters[k].nl /\ r.e.filters[k].rap = d.filters[k].rap
       /\ r.e.filters[k].rh = d.filters[k].rh

UnsMatches(r, d) ==
  /\ r.kind = "UNS" /\ d.t = UNSUBSCRIBE
  /\ r.e.props = d.props /\ r.e.topics = d.topics

ReqMatches(r, d) ==
  IF d.t = PUBLISH THEN PubMatches(r, d)
  ELSE IF d.t = SUBSCRIBE THEN SubMatches(r, d)
  ELSE UnsMatches(r, d)

\* index of the request this outbound packet carries (0 = none).  Prefer the request that is
\* already bound to this identifier, then the oldest unbound one.
FindReq(h, d) ==
  LET M == {k \in 1..Len(h.reqs) : ReqMatches(h.reqs[k], d) /\ h.reqs[k].ep = h.epoch
                                    /\ h.reqs[k].ph # "done" /\ h.reqs[k].st # "ref"}
      B == {k \in M : h.reqs[k].id = d.id}
      U == {k \in M : h.reqs[k].id = 0}
      \* requests with the same content that were refused locally: only if nothing else explains
      \* the packet is it attributed to one of them (and then reported)
      R == {k \in 1..Len(h.reqs) : ReqMatches(h.reqs[k], d) /\ h.reqs[k].st = "ref" /\ h.reqs[k].ep = h.epoch}
      A == {k \in 1..Len(h.reqs) : ReqMatches(h.reqs[k], d)}
  IN IF B # {} THEN CHOOSE k \in B : \A j \in B : k <= j
     ELSE IF U # {} THEN CHOOSE k \in U : \A j \in U : k <= j
     ELSE IF R # {} THEN CHOOSE k \in R : \A j \in R : k >= j
     ELSE IF A # {} THEN CHOOSE k \in A : \A j \in A : k >= j      \* stale: latest
     ELSE 0

\* the in-flight request bound to identifier id among the given kinds (0 = none)
ById(h, id, kinds) ==
  LET S == {k \in 1..Len(h.reqs) : InFlight(h, k) /\ h.reqs[k].id = id /\ h.reqs[k].kind \in kinds}
  IN IF S = {} THEN 0 ELSE CHOOSE k \in S : \A j \in S : k >= j

\* requests accepted on an earlier connection of this broker session, unacknowledged, and not yet
\* retransmitted on the current connection
Owing(h) == {j \in 1..Len(h.reqs) : InFlight(h, j) /\ h.reqs[j].cc < h.ci /\ h.reqs[j].id # 0
               /\ (IF h.reqs[j].ph = "rec" THEN h.reqs[j].rsc # h.ci ELSE h.reqs[j].sc # h.ci)}

\* The property that speaks about the retransmission a request is owed
OwedProp(r) == IF r.kind = "P1" THEN "C02" ELSE IF r.kind = "P2" THEN "C03" ELSE "C05"
RECURSIVE ViolEach(_, _, _, _)
ViolEach(h, h0, S, why) ==
  IF S = {} THEN h
  ELSE LET p == CHOOSE p \in S : TRUE IN ViolEach(Viol(h, p, why), h0, S \ {p}, why)

\* Something that is no first transmission of anything went out on a resumed connection while
\* retransmissions are owed: the stored bytes of an unacknowledged packet have been altered (C17), and
\* the owed PUBLISH / PUBREL / SUBSCRIBE / UNSUBSCRIBE was not retransmitted intact on this resume
\* (C02 / C03 / C05)
C17Owed(h0, h) ==
  IF h0.ack.have /\ h0.ack.sp = 1 /\ Owing(h0) # {}
  THEN LET why == "a packet that equals no first transmission was sent while retransmissions are owed"
           \* ... which is also a partial outbound packet carried over to the new connection (C12)
           ps == {OwedProp(h0.reqs[j]) : j \in Owing(h0)} \cup {"C05", "C12"}
                   \cup (IF {j \in Owing(h0) : h0.reqs[j].ph = "new"} # {} THEN {"C17"} ELSE {})
       IN ViolEach(h, h0, ps, why)
  ELSE h

Truth(h, k) ==
  LET r == h.reqs[k] IN
  IF r.ep # h.epoch THEN "i" ELSE IF r.ph = "done" THEN "c" ELSE "p"

---------------------------------------------------------------------------
\* C10 helpers (all times in ms)

\* `overslept`: since the last client packet, time moved while the application was not waiting in
\* poll/recv, or past the deadline the client had asked to be woken at; then the gap is the
\* application's doing, not the client's.
\* D10 (open): while a PINGREQ is unanswered the client sends no further PINGREQ until the PINGRESP
\* arrives or the 5 s round-trip bound expires, whatever the keep-alive; signature: effective
\* keep-alive below 5 s, a PINGREQ is outstanding (or was answered at this very instant) and the
\* silence is no longer than the round-trip bound.
C10Gap(h, afterPing) ==
  LET gap == h.now - h.lastDone
      h1 == IF h.up /\ h.K > 0 /\ ~h.overslept /\ ~h.c10off /\ h.op.name \in {"poll", "recv"}
            THEN CheckKF(Tick(h, "C10"), gap <= h.K, "C10",
                         "time between consecutive client packets exceeds the keep-alive",
                         "D10", h.K < 5000 /\ (h.pingAt >= 0 \/ h.pingDoneAt = h.now) /\ gap <= 5300)
            ELSE h
  IN [h1 EXCEPT !.lastDone = h.now, !.overslept = FALSE]

\* the client went to sleep inside poll/recv asking to be woken at `wake`
C10Yield(h, wake) ==
  IF ~(h.up /\ ~h.dead /\ ~h.c10off /\ h.op.name \in {"poll", "recv"} /\ h.pe = "rpend") THEN h
  ELSE
  LET h1 == IF h.K > 0 /\ ~h.overslept
            THEN CheckKF(Tick(h, "C10"), wake >= 0 /\ wake <= h.lastDone + h.K, "C10",
                         "client sleeps past the keep-alive without sending anything",
                         "D10", h.K < 5000 /\ h.pingAt >= 0 /\ wake >= 0 /\ wake <= h.pingAt + 5000)
            ELSE h
      h2 == IF h.pingAt >= 0
            THEN Check(h1, h.now < h.pingAt + 5300 /\ wake >= 0 /\ wake <= h.pingAt + 5000, "C10",
                       "unanswered PINGREQ not detected at the round-trip bound")
            ELSE h1
  IN [h2 EXCEPT !.wake = wake]

---------------------------------------------------------------------------
\* outbound packets (bytes the transport accepted, framed)

\* C06: identifiers of QoS>0 PUBLISH packets the broker has received on this connection and not
\* resolved.  Known finding D5b: the broker lowered Receive Maximum below the number of
\* publishes carried over from the previous connection and the replay itself exceeds it
\* (signature: the packet that exceeds the window is a retransmission).
C06Check(h, id, replay) ==
  LET un == h.unres \cup {id} IN
  CheckKF([h EXCEPT !.unres = un], Cardinality(un) <= h.ack.rm, "C06",
          "more unresolved QoS>0 PUBLISH packets than Receive Maximum", "D5b", replay)

OutPublishQ0(h, d, pkt) ==
  LET o == h.op IN
  IF o.name = "publish" /\ o.q = 0
     /\ o.e.topic = d.topic /\ o.e.payload = d.payload /\ WireProps(o.e) = d.props
     /\ (IF o.e.retain THEN 1 ELSE 0) = d.rt
  THEN [h EXCEPT !.op.q0sent = TRUE]
  ELSE Viol(h, "C09", "QoS 0 PUBLISH on the wire differs from the pending request")

OutRequest(h0, d, pkt) ==
  LET h == Tick2(Tick(h0, IF d.t = PUBLISH THEN (IF d.q = 1 THEN "C02" ELSE "C03") ELSE "C05"), "C07",
                 IF d.t = PUBLISH THEN "C06" ELSE "C05")
      k == FindReq(h, d)
      kinds == IF d.t = PUBLISH THEN {"P1", "P2"} ELSE IF d.t = SUBSCRIBE THEN {"SUB"} ELSE {"UNS"}
      byid == ById(h, d.id, kinds)
      pp == IF d.t = PUBLISH THEN (IF d.q = 1 THEN "C02" ELSE "C03") ELSE "C05"
  IN
  IF k = 0 THEN
     LET h1 == Viol(h, "C09", "outbound packet matches no request made by the application") IN
     IF byid # 0 /\ h.reqs[byid].bytes # << >> /\ ClearDup(pkt) # h.reqs[byid].bytes
     THEN Viol(Viol(h1, "C17", "retransmission differs from the first transmission"),
               pp, "retransmission is not byte-identical")
     ELSE C17Owed(h, h1)
  ELSE
  LET r == h.reqs[k]
      first == r.id = 0
      hT == IF first THEN h ELSE Tick2(h, "C17", "C05")
      others == {j \in 1..Len(h.reqs) : j # k /\ InFlight(h, j) /\ h.reqs[j].id = d.id}
      cnt == IF r.sc = h.ci THEN r.n + 1 ELSE 1
      h1 == IF r.st = "ref" THEN Viol(hT, r.refp, "a locally refused request reached the wire") ELSE hT
      h2 == Check(h1, r.ep = h.epoch, "C05",
                  "request from before a fresh broker session was transmitted")
      h3a == CheckKF(h2, others = {}, "C07", "packet identifier already in use by another operation",
                     "D7", TRUE)
      \* C03: in particular a PUBLISH must not carry the identifier of an exchange between PUBREC and PUBCOMP
      h3 == IF d.t = PUBLISH /\ {j \in others : h.reqs[j].kind = "P2" /\ h.reqs[j].ph = "rec"} # {}
            THEN Viol(Tick(h3a, "C03"), "C03", "a PUBLISH carries the identifier of an exchange that still awaits its PUBCOMP")
            ELSE h3a
      h4 == IF first THEN h3
            ELSE LET a == Check(h3, r.id = d.id, pp, "retransmission changed the packet identifier")
                 IN IF ClearDup(pkt) = r.bytes THEN a
                    ELSE Viol(Viol(a, "C17", "retransmission differs from the first transmission"),
                              pp, "retransmission is not byte-identical")
      h5 == IF d.t = PUBLISH
            THEN Check(h4, d.dup = (IF r.cc = h.ci THEN 0 ELSE 1), pp,
                       "DUP must be clear on the connection of acceptance and set on later ones")
            ELSE h4
      h6 == Check(h5, cnt <= 1, pp, "packet transmitted twice within one connection")
      h7 == Check(h6, r.ph = "new", pp, "PUBLISH transmitted after its PUBACK / PUBREC")
      \* C02: publishes leave in acceptance order
      later == {j \in 1..Len(h.reqs) : j > k /\ IsPub(h.reqs[j]) /\ h.reqs[j].sc = h.ci
                                        /\ h.reqs[j].ep = h.epoch}
      h8 == IF d.t = PUBLISH
            THEN Check(h7, later = {}, "C02", "publishes were transmitted out of acceptance order")
            ELSE h7
      \* C05: on a resumed connection everything unacknowledged is replayed before anything new
      owing == Owing(h)
      h9 == IF r.cc = h.ci
            THEN Check(h8, owing = {}, "C05",
                       "a new identifier-bearing packet was sent before the replay finished")
            ELSE h8
      h10 == [h9 EXCEPT !.reqs[k].id = d.id,
                        !.reqs[k].bytes = IF first THEN ClearDup(pkt) ELSE @,
                        !.reqs[k].st = IF @ \in {"pend", "unk"} THEN "acc" ELSE @,
                        !.reqs[k].sc = h.ci, !.reqs[k].n = cnt]
  IN IF d.t = PUBLISH THEN C06Check(h10, d.id, r.cc < h.ci) ELSE h10

OutAck(h0, d) ==
  LET h == Tick(h0, "C04") IN
  IF h.dcconn THEN h
  ELSE IF h.aw < Len(h.owed)
     /\ h.owed[h.aw + 1].t = d.t /\ h.owed[h.aw + 1].id = d.id /\ h.owed[h.aw + 1].rc = d.rc
  THEN [h EXCEPT !.aw = @ + 1]
  ELSE Viol(h, "C04", "acknowledgement not owed, out of order, or with the wrong reason code")

OutPubrel(h0, d) ==
  LET h == Tick(h0, "C03")
      k == ById(h, d.id, {"P2"}) IN
  IF d.id \in h.dcids THEN h
  ELSE IF k = 0 \/ h.reqs[k].ph # "rec"
  THEN LET old == {j \in 1..Len(h.reqs) : h.reqs[j].kind = "P2" /\ h.reqs[j].id = d.id /\ h.reqs[j].ep < h.epoch
                                             /\ h.reqs[j].ph = "rec"}
           h1 == Viol(h, "C03", "PUBREL without a successful PUBREC for an exchange in progress")
       IN IF k = 0 /\ old # {}
          THEN Viol(Tick(h1, "C05"), "C05", "request from before a fresh broker session was transmitted")
          ELSE h1
  ELSE LET r == h.reqs[k]
           cnt == IF r.rsc = h.ci THEN r.rn + 1 ELSE 1
           later == {j \in 1..Len(h.reqs) : h.reqs[j].kind = "P2" /\ h.reqs[j].rsc = h.ci
                                             /\ h.reqs[j].ep = h.epoch /\ h.reqs[j].recseq > r.recseq}
           h1 == Check(h, d.rc = 0, "C03", "PUBREL with a failure reason code")
           h2 == Check(h1, cnt <= 1, "C03", "PUBREL transmitted twice within one connection")
           h3 == CheckKF(h2, later = {}, "C03", "replayed PUBRELs do not keep PUBREC arrival order",
                         "D8", r.cc < h.ci)
       IN [h3 EXCEPT !.reqs[k].rsc = h.ci, !.reqs[k].rn = cnt]

OutConnect(h, d) ==
  LET want == {Prop(39, 0, EncU32(h.cfg.rx), << >>), Prop(17, 0, h.cfg.sei, << >>),
               Prop(33, 8, << >>, << >>)}
      c == h.cfg
      h1 == Check(h, h.cleanDc \/ d.clean = (IF h.everOk THEN 0 ELSE 1), "C05",
                  "clean start must be requested exactly until the first successful CONNACK")
      h2a == Check(h1, d.cid = h.cid, "C05", "CONNECT does not carry the configured / assigned client id")
      \* C16: a broker keys sessions by client identifier; under another identifier the session that the
      \* accepted, still unacknowledged operations belong to cannot be resumed, so they can never complete
      h2 == IF d.cid # h.cid /\ h.everOk /\ \E k \in 1..Len(h.reqs) : InFlight(h, k)
            THEN Viol(h2a, "C16", "CONNECT under another client identifier while accepted operations are pending (their session cannot be resumed)")
            ELSE h2a
      h3 == Check(h2, HasProp(d.props, 39) /\ FirstProp(d.props, 39).s = EncU32(c.rx), "C14",
                  "CONNECT must advertise the receive buffer size as Maximum Packet Size")
      h4 == Check(h3, PropSet(d.props) = want /\ Len(d.props) = 3, "C09", "CONNECT properties differ from the configuration")
      h5a == Check(h4, d.ka = h.kaAdv, "C09", "CONNECT keep-alive differs from the configured value")
      \* C08: ... in particular not the Server Keep Alive of a CONNACK that was rejected
      h5 == IF d.ka # h.kaAdv /\ h.rejSka >= 0 /\ d.ka = h.rejSka
            THEN Viol(Tick(h5a, "C08"), "C08", "a rejected CONNACK was partially acted upon (its Server Keep Alive is used)")
            ELSE h5a
      h6 == Check(h5, d.will = (IF c.haswill THEN 1 ELSE 0)
                      /\ (c.haswill => /\ d.willq = c.will.qos /\ d.willr = c.will.retain
                                       /\ d.willtopic = c.will.topic /\ d.willdata = c.will.payload
                                       /\ d.willprops = c.will.props),
                  "C09", "CONNECT will differs from the configuration")
      h7 == Check(h6, d.userf = (IF c.hasauth THEN 1 ELSE 0) /\ d.passf = d.userf
                      /\ (c.hasauth => d.user = c.user /\ d.pass = c.pass),
                  "C09", "CONNECT user name / password differ from the configuration")
      h8 == IF c.haswill
            THEN Check(Tick(h7, "C19"), ReqPropsOk(c.will.props, CtxWill), "C19",
                       "a will with illegal properties was accepted and sent")
            ELSE h7
  IN h8

OutDisconnect(h, d) ==
  LET o == h.op
      h1 == IF o.name = "disconnect"
               /\ d.rc = (IF o.e.reason < 0 THEN 0 ELSE o.e.reason)
               /\ d.props = o.e.props
            THEN h
            ELSE Viol(h, "C09", "DISCONNECT on the wire differs from the request")
  IN [h1 EXCEPT !.wdisc = TRUE]

\* the identifier field of a request packet is zero (QoS > 0 PUBLISH: behind the topic; SUBSCRIBE /
\* UNSUBSCRIBE: the first two bytes of the variable header)
ZeroId(pkt) ==
  LET f == Frame(pkt)  t == pkt[1] \div 16  q == (pkt[1] \div 2) % 4 IN
  IF f.st # "ok" THEN FALSE
  ELSE LET b == f.hdr IN
       IF t \in {SUBSCRIBE, UNSUBSCRIBE} THEN Len(pkt) >= b + 2 /\ pkt[b + 1] = 0 /\ pkt[b + 2] = 0
       ELSE IF t = PUBLISH /\ q > 0 THEN
            Len(pkt) >= b + 2 /\ LET tl == pkt[b + 1] * 256 + pkt[b + 2] IN
                                 \* no room for an identifier behind the topic, or the identifier is zero
                                 \/ (Len(pkt) >= b + 2 + tl /\ Len(pkt) < b + 4 + tl)
                                 \/ (Len(pkt) >= b + 4 + tl /\ pkt[b + 3 + tl] = 0 /\ pkt[b + 4 + tl] = 0)
       ELSE FALSE

OnOut(h, pkt) ==
  LET d0 == DecClient(pkt)
      d == IF d0.st = "badflags" THEN DecClientLax(pkt) ELSE d0
      \* D3: a replayed SUBSCRIBE / UNSUBSCRIBE carries flags 1010
      replayed == d.st = "ok" /\ d.t \in {SUBSCRIBE, UNSUBSCRIBE}
                  /\ LET k == FindReq(h, d) IN k # 0 /\ h.reqs[k].cc < h.ci
      h0 == [Tick(Tick2(h, "C01", "C09"), "C14") EXCEPT !.wn = @ + 1, !.lastout = (pkt[1] \div 16),
                      !.sum.out = Append(@, << h.ci, ClearDup(pkt) >>),
                      !.pingOut = (pkt[1] \div 16 = PINGREQ), !.afterPing = (pkt[1] \div 16 = PINGREQ),
                      !.cmid = IF d0.st = "ok" THEN FALSE ELSE @]
      \* an acknowledgement that echoes identifier 0 of an irregular inbound packet is not held
      \* against the client
      echo0 == h.dcconn /\ (pkt[1] \div 16) \in {PUBACK, PUBREC, PUBCOMP}
      h1a == IF echo0 /\ d0.st # "ok" THEN h0 ELSE
             CheckKF(h0, d0.st = "ok", "C01", "outbound packet is not a well-formed MQTT 5 client packet",
                     "D3", d0.st = "badflags" /\ d0.fl = 10 /\ replayed)
      \* once the outbound stream is garbled nothing written later on this transport can be attributed
      \* to a request: the other monitors stop for the rest of this run (as for D2)
      \* C09: what cannot be decoded is not what the application asked to send
      h1b0 == IF d.st # "ok" /\ Len(h1a.v) > Len(h0.v)
              THEN Viol(h1a, "C09", "an outbound packet cannot be decoded by an independent MQTT 5 decoder") ELSE h1a
      \* C13: the packet a cancelled call had left half-written did not survive (something cut into it)
      h1b1 == IF d.st # "ok" /\ Len(h1a.v) > Len(h0.v) /\ h.cmid
              THEN Viol(Viol(Tick2(h1b0, "C13", "C15"), "C13", "the packet a cancelled operation left half-written was corrupted by what followed"),
                        "C15", "a packet the transport had taken only part of was corrupted by what followed")
              ELSE h1b0
      \* C07: a request packet without (or with a zero) identifier
      h1b == IF d.st # "ok" /\ Len(h1a.v) > Len(h0.v) /\ ZeroId(pkt)
             THEN Viol(Tick(h1b1, "C07"), "C07", "a PUBLISH / SUBSCRIBE / UNSUBSCRIBE carries identifier 0 (or none)") ELSE h1b1
      \* C19: a CONNECT that is not well-formed because the configured will carries properties no will may carry
      h1c == IF d.st # "ok" /\ Len(h1a.v) > Len(h0.v) /\ pkt[1] \div 16 = CONNECT /\ h.cfg.haswill
                /\ ~ReqPropsOk(h.cfg.will.props, CtxWill)
             THEN Viol(Tick(h1b, "C19"), "C19", "a will with illegal properties was accepted and sent") ELSE h1b
      \* C04: something that is no packet went out while an acknowledgement is owed -- the owed PUBACK / PUBREC /
      \* PUBCOMP did not reach the wire whole
      h1d == IF d.st # "ok" /\ Len(h1a.v) > Len(h0.v) /\ h.aw < Len(h.owed)
             THEN Viol(Tick(h1c, "C04"), "C04", "an undecodable packet was sent while an acknowledgement is owed") ELSE h1c
      h1 == IF d.st # "ok" /\ Len(h1a.v) > Len(h0.v) THEN [C17Owed(h, h1d) EXCEPT !.taint = 2] ELSE h1a
      h2 == Check(h1, (h.wn = 0) = (pkt[1] \div 16 = CONNECT), "C01",
                  "CONNECT must be the first and only the first packet on a transport")
      \* D2: a disconnect() whose future was dropped after its DISCONNECT had reached the wire
      \* leaves the handle live
      h3 == CheckKF(h2, ~h.wdisc, "C01", "a packet follows DISCONNECT", "D2", h.dcan)
      h4 == Check(h3, (pkt[1] \div 16 = CONNECT) \/ ~h.ack.have \/ h.ack.maxpkt < 0
                      \/ Len(pkt) <= h.ack.maxpkt,
                  "C14", "outbound packet longer than the broker's Maximum Packet Size")
      \* C10: time between consecutive client packets while the application waits in poll
      h5 == C10Gap(h4, h.afterPing)
  IN IF d.st # "ok" THEN h5
     ELSE IF d.t = CONNECT THEN OutConnect([h5 EXCEPT !.connectLen = Len(pkt)], d)
     ELSE IF d.t = PUBLISH /\ d.q = 0 THEN OutPublishQ0(h5, d, pkt)
     ELSE IF d.t \in {PUBLISH, SUBSCRIBE, UNSUBSCRIBE} THEN OutRequest(h5, d, pkt)
     ELSE IF d.t \in {PUBACK, PUBREC, PUBCOMP} THEN OutAck(h5, d)
     ELSE IF d.t = PUBREL THEN OutPubrel(h5, d)
     ELSE IF d.t = PINGREQ THEN
          \* C13: uncancelled, the client never sends a second PINGREQ while one is unanswered
          LET h6 == IF (h.pingAt >= 0 \/ h.pingOut) /\ h.pcan
                    THEN Viol(Tick(h5, "C13"), "C13", "after a cancellation a second PINGREQ was sent while the first is still unanswered")
                    ELSE IF (h.pingAt >= 0 \/ h.pingOut) /\ h.pfrag
                    THEN Viol(Tick(h5, "C15"), "C15", "with partial writes a second PINGREQ was sent while the first is still unanswered")
                    ELSE h5
          IN Check(h6, h.K > 0, "C10", "PINGREQ although the keep-alive is zero")
     ELSE IF d.t = DISCONNECT THEN OutDisconnect(h5, d)
     ELSE h5

RECURSIVE DrainOut(_)
DrainOut(h) ==
  LET f == Frame(h.wtail) IN
  IF f.st = "ok"
  THEN LET pkt == SubSeq(h.wtail, 1, f.len)
           rest == SubSeq(h.wtail, f.len + 1, Len(h.wtail))
       IN DrainOut(OnOut([h EXCEPT !.wtail = rest], pkt))
  ELSE IF f.st = "bad"
  THEN LET a == Viol([h EXCEPT !.wtail = << >>, !.taint = 2], "C01", "outbound byte stream cannot be framed")
       IN C17Owed(h, IF h.aw < Len(h.owed)
                     THEN Viol(Tick(a, "C04"), "C04", "an undecodable packet was sent while an acknowledgement is owed") ELSE a)
  ELSE h

---------------------------------------------------------------------------
\* inbound packets (bytes the client consumed, framed)

OwedAck(t, id, rc, ci) == [t |-> t, id |-> id, rc |-> rc, ci |-> ci]

\* every acknowledgement this client sends is five bytes long: below that maximum a packet that demands
\* one cannot be answered and the connection has to be closed instead (C14)
NoAckFits(h) == h.ack.have /\ h.ack.maxpkt >= 0 /\ h.ack.maxpkt < 5

InPublish(h0, d) ==
  LET h == Tick(h0, "C04") IN
  IF d.q = 0 THEN [h EXCEPT !.op.msg = d, !.op.hasmsg = TRUE]
  ELSE IF NoAckFits(h) THEN [h EXCEPT !.op.nofit = TRUE]
  ELSE IF d.q = 1 THEN
    [h EXCEPT !.owed = Append(@, OwedAck(PUBACK, d.id, IF d.id \in h.sids THEN 145 ELSE 0, h.ci)),
              !.op.msg = d, !.op.hasmsg = TRUE]
  ELSE IF d.id \in h.sids THEN
    [h EXCEPT !.owed = Append(@, OwedAck(PUBREC, d.id, 0, h.ci))]      \* duplicate: acknowledged only
  ELSE IF Cardinality(h.sids) >= 8 THEN [h EXCEPT !.op.dc = TRUE]      \* broker exceeds our Receive Maximum
  ELSE [h EXCEPT !.owed = Append(@, OwedAck(PUBREC, d.id, 0, h.ci)), !.sids = @ \cup {d.id},
                 !.op.msg = d, !.op.hasmsg = TRUE]

InAck(h, d) ==
  LET kinds == CASE d.t = PUBACK -> {"P1"} [] d.t \in {PUBREC, PUBCOMP} -> {"P2"}
                 [] d.t = SUBACK -> {"SUB"} [] OTHER -> {"UNS"}
      k == ById(h, d.id, kinds)
      any == ById(h, d.id, {"P1", "P2", "SUB", "UNS"})
      rc == IF d.t \in {SUBACK, UNSUBACK}
            THEN LET F == {i \in 1..Len(d.codes) : d.codes[i] >= 128} IN
                 IF F = {} THEN 0 ELSE d.codes[CHOOSE i \in F : \A j \in F : i <= j]
            ELSE d.rc
  IN
  IF d.id \in h.dcids THEN [h EXCEPT !.op.dc = TRUE]
  ELSE IF k = 0 THEN
     \* stale acknowledgement; one that names an identifier in flight for another packet kind
     \* comes from a broker outside the assumptions: stop making claims about that operation
     \* and about that identifier
     IF any # 0 /\ ~(d.t = PUBREC /\ h.reqs[any].kind = "P2")
     THEN [h EXCEPT !.reqs[any].st = "dc", !.op.dc = TRUE, !.dcids = @ \cup {d.id}] ELSE h
  ELSE LET r == h.reqs[k] IN
    IF d.t = PUBREC THEN
       IF r.ph = "rec"                      \* duplicate PUBREC; one that now fails is inconsistent: dc
       THEN IF rc >= 128 THEN [h EXCEPT !.op.dc = TRUE] ELSE h
       ELSE IF rc < 128
       THEN [h EXCEPT !.reqs[k].ph = "rec", !.reqs[k].recseq = h.recn + 1, !.recn = @ + 1]
       ELSE [h EXCEPT !.reqs[k].ph = "done", !.reqs[k].donel = h.l, !.op.rej = rc]
    ELSE IF d.t = PUBCOMP THEN
       IF r.ph # "rec" THEN h
       ELSE [h EXCEPT !.reqs[k].ph = "done", !.reqs[k].donel = h.l, !.op.rej = IF rc >= 128 THEN rc ELSE @]
    ELSE IF d.t = PUBACK /\ r.ph # "new" THEN h
    ELSE [h EXCEPT !.reqs[k].ph = "done", !.reqs[k].donel = h.l, !.op.rej = IF rc >= 128 THEN rc ELSE @]

InConnack(h, d) ==
  LET P == d.props
      rmv == IF HasProp(P, 33) THEN FirstProp(P, 33).n ELSE 65535
      propsok == /\ (HasProp(P, 33) => rmv >= 1)
                 /\ (HasProp(P, 36) => FirstProp(P, 36).n <= 2)
                 /\ (HasProp(P, 18) => Len(FirstProp(P, 18).s) <= 64)
      a == [have |-> TRUE, sp |-> d.sp, rc |-> d.rc, rm |-> Min(rmv, 8),
            maxpkt |-> IF HasProp(P, 39) THEN U32Sat(FirstProp(P, 39).s) ELSE -1,
            maxqos |-> IF HasProp(P, 36) THEN FirstProp(P, 36).n ELSE 2,
            ska |-> IF HasProp(P, 19) THEN FirstProp(P, 19).n ELSE -1,
            hasaci |-> HasProp(P, 18), aci |-> IF HasProp(P, 18) THEN FirstProp(P, 18).s ELSE << >>,
            propsok |-> propsok]
      fresh == d.rc < 128 /\ d.sp = 0
      \* C06: exchanges past PUBREC that wait for PUBCOMP stay unresolved on a resumed connection
      \* although their PUBLISH is not sent again
      waiting == {h.reqs[k].id : k \in {j \in 1..Len(h.reqs) : InFlight(h, j) /\ h.reqs[j].ph = "rec"}}
  IN [h EXCEPT !.ack = a,
               !.unres = IF d.rc < 128 /\ d.sp = 1 THEN waiting ELSE {},
               !.epoch = IF fresh THEN @ + 1 ELSE @,
               !.owed = IF fresh THEN << >> ELSE @, !.aw = IF fresh THEN 0 ELSE @,
               !.sids = IF fresh THEN {} ELSE @]

OnIn(h, pkt) ==
  LET d == IF Len(pkt) > h.cfg.rx THEN Bad ELSE DecServer(pkt)
      h0 == [Tick(h, "C08") EXCEPT !.op.prog = TRUE, !.op.nin = @ + 1]
  IN
  IF d.st = "bad" THEN [h0 EXCEPT !.op.bad = TRUE]
  \* an irregular packet no listed property constrains (empty topic, identifier 0, broken property
  \* block, ...): whatever the client answers to it is outside the claims; acknowledgement
  \* bookkeeping stands down for this connection
  ELSE IF d.st = "dc" THEN [h0 EXCEPT !.op.dc = TRUE, !.dcconn = TRUE]
  ELSE IF h.op.name = "conn" THEN
       IF d.t = CONNACK THEN InConnack(h0, d)
       ELSE IF d.t = DISCONNECT THEN [h0 EXCEPT !.op.disc = TRUE]
       ELSE [h0 EXCEPT !.op.unexp = TRUE]
  ELSE IF d.t = CONNACK THEN [h0 EXCEPT !.op.unexp = TRUE]
  ELSE IF d.t = PUBLISH THEN InPublish(h0, d)
  ELSE IF d.t \in {PUBACK, PUBREC, PUBCOMP, SUBACK, UNSUBACK} THEN InAck(h0, d)
  \* (as built, the identifier is released when the PUBREL is read, before the PUBCOMP is size-checked: a
  \* retransmitted PUBREL is then answered with packet-identifier-not-found -- harmless, the message was delivered)
  ELSE IF d.t = PUBREL /\ NoAckFits(h) THEN [h0 EXCEPT !.op.nofit = TRUE, !.sids = @ \ {d.id}]
  ELSE IF d.t = PUBREL THEN
       [h0 EXCEPT !.owed = Append(@, OwedAck(PUBCOMP, d.id, IF d.id \in h.sids THEN 0 ELSE 146, h.ci)),
                  !.sids = @ \ {d.id}]
  ELSE IF d.t = PINGRESP THEN [h0 EXCEPT !.pingAt = -1, !.pingDoneAt = h.now, !.pcan = FALSE]
  ELSE IF d.t = DISCONNECT THEN [h0 EXCEPT !.op.disc = TRUE]
  ELSE h0

RECURSIVE DrainIn(_)
DrainIn(h) ==
  LET f == Frame(h.rtail) IN
  IF f.st = "ok"
  THEN LET pkt == SubSeq(h.rtail, 1, f.len)
           rest == SubSeq(h.rtail, f.len + 1, Len(h.rtail))
       IN DrainIn(OnIn([h EXCEPT !.rtail = rest], pkt))
  ELSE h

\* what the broker has sent (resolves its receive window at send time, C06)
OnBroker(h, pkt) ==
  LET d == DecServer(pkt) IN
  IF d.st # "ok" THEN h
  ELSE IF d.t = PUBACK \/ d.t = PUBCOMP \/ (d.t = PUBREC /\ d.rc >= 128)
  THEN [h EXCEPT !.unres = @ \ {d.id}]
  ELSE h

RECURSIVE DrainBroker(_)
DrainBroker(h) ==
  LET f == Frame(h.btail) IN
  IF f.st = "ok"
  THEN LET pkt == SubSeq(h.btail, 1, f.len)
           rest == SubSeq(h.btail, f.len + 1, Len(h.btail))
       IN DrainBroker(OnBroker([h EXCEPT !.btail = rest], pkt))
  ELSE IF f.st = "bad" THEN [h EXCEPT !.btail = << >>]
  ELSE h

\* the inbound bytes consumed so far can no longer become a packet this client may accept
TailHopeless(h) ==
  LET f == Frame(h.rtail) IN
  \/ f.st = "bad"
  \/ (f.st = "more" /\ "need" \in DOMAIN f /\ f.need > h.cfg.rx)
  \/ (Len(h.rtail) >= 1 /\ (h.rtail[1] \div 16) \notin ServerMaySend)

---------------------------------------------------------------------------
\* observations (status answers after every return, cancellation and drop)

ObsChecks(h0, obs) ==
  LET h == IF Len(h0.hmap) > 0 THEN Tick(h0, "C18") ELSE h0
      h1 == IF h.up /\ h.dead
            THEN Check(Tick(h, "C11"), ~obs.live /\ obs.cp = << FALSE, FALSE, FALSE >>, "C11",
                       "a dead handle reports connected / able to publish")
            ELSE h
      \* C18: every handle tells the truth
      wrong == {i \in 1..Len(h.hmap) :
                  h.reqs[h.hmap[i]].st # "dc" /\ obs.h[i] # Truth(h, h.hmap[i])}
      h2 == IF Len(obs.h) = Len(h.hmap)
            \* D15: a completed handle aliases a later in-flight operation that received the same
            \* identifier after the 16-bit counter wrapped
            THEN CheckKF(h1, wrong = {}, "C18", "an operation handle misreports its status",
                         "D15", \A i \in wrong :
                                  /\ obs.h[i] = "p" /\ Truth(h, h.hmap[i]) = "c"
                                  \* a later operation that may hold the same identifier: seen on the
                                  \* wire with it, or enqueued but not yet seen (identifier unknown)
                                  /\ \E j \in (h.hmap[i] + 1)..Len(h.reqs) :
                                         /\ h.reqs[j].ep = h.epoch /\ h.reqs[j].ph # "done"
                                         /\ h.reqs[j].st \in {"acc", "unk", "pend"}
                                         /\ h.reqs[j].id \in {0, h.reqs[h.hmap[i]].id}
                                         \* ... and was made after the handle's operation had completed
                                         \* (an identifier handed out while still in use is no aliasing)
                                         /\ h.reqs[j].l > h.reqs[h.hmap[i]].donel)
            ELSE h1
      \* C05: in particular every handle of a discarded session reports invalidated
      stale == {i \in wrong : h.reqs[h.hmap[i]].st # "dc" /\ Truth(h, h.hmap[i]) = "i"}
      h2b == IF Len(obs.h) = Len(h.hmap) /\ stale # {}
             THEN Viol(Tick(h2, "C05"), "C05", "a handle issued before a fresh broker session does not report invalidated")
             ELSE h2
      \* C02 / C03: an accepted, unacknowledged request is still held
      held == {k \in 1..Len(h.reqs) : InFlight(h, k)}
      h3 == IF obs.q /\ held # {}
            THEN LET k == CHOOSE k \in held : TRUE IN
                 Viol(h2b, IF h.reqs[k].kind = "P1" THEN "C02" ELSE IF h.reqs[k].kind = "P2" THEN "C03" ELSE "C05",
                      "session reports quiescent although an accepted operation is unacknowledged")
            ELSE h2b
  IN [h3 EXCEPT !.lastio = obs.io, !.lastobs = obs]

---------------------------------------------------------------------------
\* event handlers

IoOnDead(h) ==
  IF h.up /\ h.dead THEN Viol(h, "C11", "transport touched after the handle died") ELSE h

StepConn(h, e) ==
  [h EXCEPT !.ci = @ + 1, !.wtail = << >>, !.wn = 0, !.wdisc = FALSE, !.rtail = << >>,
            !.btail = << >>, !.ack = NoAck, !.aw = 0, !.unres = {}, !.dcan = FALSE, !.taint = 0,
            !.dead = FALSE, !.c10off = FALSE, !.dcconn = FALSE, !.pio = "", !.pingAt = -1, !.pingOut = FALSE, !.pcan = FALSE, !.pfrag = FALSE, !.cmid = FALSE, !.overslept = TRUE, !.up = FALSE,
            !.op = [name |-> "conn", l |-> h.l, prog |-> FALSE, nin |-> 0, bad |-> FALSE,
                    dc |-> FALSE, disc |-> FALSE, unexp |-> FALSE, fault |-> FALSE, eof |-> FALSE,
                    rej |-> -1, hasmsg |-> FALSE, deadcall |-> FALSE, healthy |-> e.healthy, nofit |-> FALSE]]

BaseOp(h, e) ==
  [name |-> e.e, l |-> h.l, e |-> e, prog |-> FALSE, nin |-> 0, bad |-> FALSE, dc |-> FALSE,
   disc |-> FALSE, unexp |-> FALSE, fault |-> FALSE, eof |-> FALSE, rej |-> -1, hasmsg |-> FALSE,
   msg |-> << >>, deadcall |-> h.dead, io0 |-> h.lastio, q |-> -1, q0sent |-> FALSE, req |-> 0, nofit |-> FALSE]

StepCall(h, e) ==
  LET o == BaseOp(h, e) IN
  IF e.e = "publish" THEN
     LET q == EffQos(h, e.qos) IN
     IF q = 0 THEN [h EXCEPT !.op = [o EXCEPT !.q = q]]
     ELSE [h EXCEPT !.reqs = Append(@, NewReq(h, ReqKindOfQos(q), e)),
                    !.op = [o EXCEPT !.q = q, !.req = Len(h.reqs) + 1]]
  ELSE IF e.e = "subscribe" THEN
     [h EXCEPT !.reqs = Append(@, NewReq(h, "SUB", e)), !.op = [o EXCEPT !.req = Len(h.reqs) + 1]]
  ELSE IF e.e = "unsubscribe" THEN
     [h EXCEPT !.reqs = Append(@, NewReq(h, "UNS", e)), !.op = [o EXCEPT !.req = Len(h.reqs) + 1]]
  ELSE [h EXCEPT !.op = o]

\* expected local verdict on the request's arguments (C19)
\* a string or binary field carries a two-byte length: nothing longer than 65535 bytes can be encoded (C09)
FieldMax == 65535
PropsTooLong(props) == \E k \in 1..Len(props) : Len(props[k].s) > FieldMax \/ Len(props[k].t) > FieldMax
ArgsInvalid(o) ==
  CASE o.name = "publish" -> ~ReqPropsOk(WireProps(o.e), PUBLISH) \/ Len(o.e.topic) > FieldMax \/ PropsTooLong(WireProps(o.e))
    [] o.name = "subscribe" -> o.e.filters = << >> \/ ~ReqPropsOk(o.e.props, SUBSCRIBE) \/ PropsTooLong(o.e.props)
                               \/ \E i \in 1..Len(o.e.filters) : Len(o.e.filters[i].topic) > FieldMax
    [] o.name = "unsubscribe" -> o.e.topics = << >> \/ ~ReqPropsOk(o.e.props, UNSUBSCRIBE) \/ PropsTooLong(o.e.props)
                                 \/ \E i \in 1..Len(o.e.topics) : Len(o.e.topics[i]) > FieldMax
    [] o.name = "disconnect" -> o.e.hasprops /\ ~ReqPropsOk(o.e.props, DISCONNECT)
    [] OTHER -> FALSE

\* D11b: Topic Alias 0 is the only illegal value among the request's properties
OnlyAliasZero(o) ==
  /\ o.name = "publish"
  /\ \E k \in 1..Len(o.e.props) : o.e.props[k].id = 35 /\ o.e.props[k].n = 0
  /\ ReqPropsOk(SelectSeq(WireProps(o.e), LAMBDA p : ~(p.id = 35 /\ p.n = 0)), PUBLISH)

RetDead(h0, e) ==
  LET h == Tick(h0, "C11") IN
  \* a call on a handle that had already died: disconnected error (disconnect: Ok), no I/O
  LET okres == IF h.op.name = "disconnect" THEN e.r.k = "ok" ELSE e.r.k = "err" /\ e.r.v = "Disconnected"
      h1 == Check(h, okres, "C11", "call on a dead handle did not fail fast with the disconnected error")
      h2 == Check(h1, e.obs.io = h.op.io0, "C11", "call on a dead handle touched the transport")
      \* C19: a request on a dead handle is refused and leaves no trace
      k == IF "req" \in DOMAIN h.op THEN h.op.req ELSE 0
      h3 == IF k # 0 /\ ~okres
            THEN Viol(h2, "C19", "a request on a dead handle was not refused with the disconnected error") ELSE h2
  IN IF k = 0 THEN h2
     ELSE [Tick(h3, "C19") EXCEPT !.reqs[k].st = "ref", !.reqs[k].refp = "C19"]

\* C12 / C17: a session that has room is usable.  A QoS > 0 publish is refused with NotReady only
\* when the broker's window is full (publishes accepted and not resolved by an acknowledgement the
\* client has consumed) or the transmit arena has less than a fixed header's worth of room behind the
\* packets it still retains (spec/Minimq.tla Inv_Usable, spec/Arena.tla PubAnswer).  Silent while a
\* cancelled request leaves it unknown what is in flight.
RECURSIVE HeldBytes(_, _)
HeldBytes(h, S) == IF S = {} THEN 0 ELSE LET j == CHOOSE j \in S : TRUE IN Len(h.reqs[j].bytes) + HeldBytes(h, S \ {j})
HasRoom(h, k) ==
  LET cur == {j \in 1..Len(h.reqs) : j # k /\ h.reqs[j].ep = h.epoch /\ h.reqs[j].ph # "done"}
      unsure == {j \in cur : h.reqs[j].st \in {"pend", "unk"}}
      acc == {j \in cur : h.reqs[j].st = "acc"}
      pubs == {j \in acc : h.reqs[j].kind \in {"P1", "P2"}}
      held == {j \in acc : h.reqs[j].ph = "new"}
      window == IF h.ack.have THEN h.ack.rm ELSE 8
  IN /\ unsure = {} /\ {j \in held : h.reqs[j].bytes = << >>} = {}
     /\ Cardinality(pubs) < window /\ Cardinality(held) < 8
     /\ h.cfg.tx - HeldBytes(h, held) >= 5
\* ... and the converse: a publish is accepted although the window is full -- the broker's Receive Maximum or the
\* client's own eight exchanges, counting those that await their PUBCOMP (they keep their unit until then, also
\* across a resumed reconnect).  One exchange too many and the PUBREL of a later PUBREC has no slot.
OverCommitted(h, k) ==
  LET cur == {j \in 1..Len(h.reqs) : j # k /\ h.reqs[j].ep = h.epoch /\ h.reqs[j].ph # "done"}
      unsure == {j \in cur : h.reqs[j].st \in {"pend", "unk"}}
      pubs == {j \in cur : h.reqs[j].st = "acc" /\ h.reqs[j].kind \in {"P1", "P2"}}
      window == IF h.ack.have THEN h.ack.rm ELSE 8
  IN unsure = {} /\ Cardinality(pubs) >= window
AwaitingComp(h, k) == {j \in 1..Len(h.reqs) : j # k /\ h.reqs[j].ep = h.epoch /\ h.reqs[j].st = "acc" /\ h.reqs[j].ph = "rec"}
Quiet(h, k) == {j \in 1..Len(h.reqs) : j # k /\ h.reqs[j].ep = h.epoch /\ h.reqs[j].ph # "done"
                                          /\ h.reqs[j].st # "ref"} = {}

\* C14 / C12: "too large" is only a reason to refuse while the CONNACK of THIS connection sets a limit, and
\* (for a publish, whose encoding the observer reproduces) only when the packet is longer than that limit.
\* Limits below five bytes are left out: there the refusal may stem from an acknowledgement that has to be
\* flushed first.
LargeUnjustified(h, o, r) ==
  /\ r.k = "err" /\ r.v = "PacketTooLarge" /\ h.ack.have
  /\ \/ h.ack.maxpkt < 0
     \/ /\ h.ack.maxpkt >= 5 /\ o.name = "publish" /\ ~ArgsInvalid(o)
        /\ Len(EncPublish(1, 0, 0, o.e.topic, 1, WireProps(o.e), o.e.payload)) <= h.ack.maxpkt
\* Known finding D12: a PUBLISH / SUBSCRIBE / UNSUBSCRIBE accepted on an earlier connection is longer than the
\* Maximum Packet Size of this (resumed) connection; it cannot be retransmitted, stays at the head of the
\* queue, and every later request is refused as too large whatever its own size
\* (the request may never have reached the wire: a write fault or a cancellation leaves it stored all the same)
RECURSIVE SumLens(_, _)
SumLens(seq, extra) == IF seq = << >> THEN 0 ELSE 2 + Len(Head(seq)) + extra + SumLens(Tail(seq), extra)
FramedLen(n) == 1 + Len(EncVarint(n)) + n
ReqLen(r) ==
  IF r.bytes # << >> THEN Len(r.bytes)
  ELSE IF r.kind \in {"P1", "P2"}
       THEN Len(EncPublish(1, 0, 0, r.e.topic, 1, WireProps(r.e), r.e.payload))
  ELSE IF r.kind = "SUB"
       THEN FramedLen(2 + Len(EncPropBlock(r.e.props)) + SumLens([i \in 1..Len(r.e.filters) |-> r.e.filters[i].topic], 1))
  ELSE FramedLen(2 + Len(EncPropBlock(r.e.props)) + SumLens(r.e.topics, 0))
D12Sig(h) ==
  /\ h.ack.maxpkt >= 0
  /\ \E j \in 1..Len(h.reqs) :
        LET q == h.reqs[j] IN
        /\ q.st \in {"acc", "unk"} /\ q.ep = h.epoch /\ q.ph = "new" /\ q.cc < h.ci /\ q.sc # h.ci
        /\ ReqLen(q) > h.ack.maxpkt
LargeCheck(h, o, r) ==
  IF LargeUnjustified(h, o, r)
  THEN LET why == "a request was refused as too large although it fits the limit of this connection"
           a == CheckKF(Tick(h, "C14"), FALSE, "C14", why, "D12", D12Sig(h))
       IN IF h.ci > 1 THEN CheckKF(a, FALSE, "C12", why, "D12", D12Sig(h)) ELSE a
  ELSE h

RetRequest(h0, e) ==
  \* publish (QoS > 0) / subscribe / unsubscribe
  LET h == LargeCheck(Tick(h0, "C19"), h0.op, e.r)
      o == h.op  k == o.req  r == e.r
      inval == ArgsInvalid(o)
      h1 == IF r.k = "err" /\ r.v = "InvalidRequest"
            THEN Check(h, inval, "C19", "a request with legal arguments was refused as invalid")
            ELSE IF r.k = "ok" \/ (r.k = "err" /\ r.v \in Local)
            THEN CheckKF(h, ~inval, "C19", "a request with illegal arguments was not refused as invalid",
                         "D11b", OnlyAliasZero(o))
            ELSE h
      room == k # 0 /\ r.k = "err" /\ r.v = "NotReady" /\ h.reqs[k].kind \in {"P1", "P2"} /\ h.taint = 0
              /\ ~h.dcconn /\ HasRoom(h, k)
      h1b == IF room
             \* a slot or a unit of the window has leaked (C17); after a reconnect the session is not fully
             \* usable (C12)
             THEN LET a == Viol(Tick2(h1, "C12", "C17"), "C17",
                                "a publish was refused as not ready although the window, the slots and the arena have room")
                  IN IF h.ci > 1
                     THEN Viol(a, "C12", "a publish was refused as not ready although the window, the slots and the arena have room")
                     ELSE a
             ELSE IF k # 0 /\ h.reqs[k].kind \in {"P1", "P2"} THEN Tick2(h1, "C12", "C17") ELSE h1
      over == k # 0 /\ r.k = "ok" /\ h.reqs[k].kind \in {"P1", "P2"} /\ h.taint = 0 /\ ~h.dcconn /\ OverCommitted(h, k)
      why == "a publish was accepted although the window (Receive Maximum / eight exchanges, those awaiting PUBCOMP included) is full"
      h1c == IF over
             THEN LET a == Viol(Tick(h1b, "C06"), "C06", why)
                  IN IF AwaitingComp(h, k) # {} THEN Viol(Tick(a, "C03"), "C03", why) ELSE a
             ELSE h1b
  IN
  IF k = 0 THEN h1
  ELSE
  IF r.k = "ok" /\ r.h >= 0 THEN
     [h1c EXCEPT !.reqs[k].st = IF @ = "pend" THEN "acc" ELSE @, !.reqs[k].hidx = r.h,
                !.hmap = Append(@, k)]
  ELSE IF r.k = "ok" THEN
     Viol(h1, "C18", "an identifier-bearing request returned no operation handle")
  ELSE IF r.v \in Local THEN
     LET p == RefusalProperty(r.v)
         h2 == IF h.reqs[k].st = "acc" THEN Viol(h1b, p, "a locally refused request reached the wire") ELSE h1b
     IN [h2 EXCEPT !.reqs[k].st = "ref", !.reqs[k].refp = p]
  ELSE [h1 EXCEPT !.reqs[k].st = IF @ = "pend" THEN "unk" ELSE @]

RetQ0(h0, e) ==
  LET h == LargeCheck(Tick(h0, "C19"), h0.op, e.r)
      o == h.op  r == e.r
      inval == ArgsInvalid(o)
      h1 == IF r.k = "err" /\ r.v = "InvalidRequest"
            THEN Check(h, inval, "C19", "a request with legal arguments was refused as invalid")
            ELSE IF r.k = "ok" \/ (r.k = "err" /\ r.v \in Local)
            THEN CheckKF(h, ~inval, "C19", "a request with illegal arguments was not refused as invalid",
                         "D11b", OnlyAliasZero(o))
            ELSE h
      h2 == IF r.k = "err" /\ r.v \in Local /\ o.q0sent
            THEN Viol(h1, RefusalProperty(r.v), "a locally refused request reached the wire") ELSE h1
      h3 == IF r.k = "ok" /\ h.taint = 0 THEN Check(h2, o.q0sent, "C09", "QoS 0 publish returned Ok without sending the packet")
            ELSE h2
  IN Check(h3, ~(r.k = "ok" /\ r.h >= 0), "C19", "QoS 0 publish returned an operation handle")

SameMsg(m, d) ==
  /\ m.topic = d.topic /\ m.payload = d.payload /\ m.qos = d.q
  /\ m.retain = (d.rt = 1) /\ m.props = d.props

\* C20: reply() and reply_owned() address exactly the requester.  d: the inbound PUBLISH as TLC decoded
\* it from the broker's bytes; pr: what the harness obtained from the helpers (each reply published
\* at QoS 0 through a side session; `bytes` is that PUBLISH as written to the wire).
ReplyPayload == << 114, 101, 112, 108, 121 >>
C20Check(h0, d, pr) ==
  LET h == Tick(h0, "C20")
      hasrt == HasProp(d.props, 8)
      rt == IF hasrt THEN FirstProp(d.props, 8).s ELSE << >>
      hascd == HasProp(d.props, 9)
      cd == IF hascd THEN FirstProp(d.props, 9).s ELSE << >>
      corr == IF hascd THEN << Prop(9, 0, cd, << >>) >> ELSE << >>
      user == << Prop(38, 0, << 114, 107 >>, << 114, 118 >>) >>
      Good(img, extra) ==
        /\ img.ok
        /\ LET p == DecClient(img.bytes) IN
           /\ p.st = "ok" /\ p.t = PUBLISH /\ p.q = 0 /\ p.topic = rt
           /\ p.props = corr \o extra /\ p.payload = ReplyPayload
      OwnedOk(ow) ==
        IF ~hasrt THEN ow.r = "none"
        ELSE IF Len(rt) <= ow.t /\ (hascd => Len(cd) <= ow.c)
        THEN /\ ow.r = "some" /\ ow.topic = rt /\ ow.hascd = hascd /\ ow.cd = cd /\ Good(ow.pub, << >>)
        ELSE ow.r = "err"
      h1 == Check(h, pr.offered = hasrt, "C20", "a reply is offered exactly when the request carries a response topic")
      h2 == IF hasrt
            THEN Check(Check(Check(h1, Good(pr.plain, << >>), "C20", "reply() does not address the requester's response topic / correlation data"),
                             Good(pr.decorated, user), "C20", "reply() with added user properties loses the response target"),
                       Good(pr.layered, user), "C20", "reply() whose caller properties were set twice loses the response target")
            ELSE h1
  IN Check(h2, \A i \in 1..Len(pr.owned) : OwnedOk(pr.owned[i]), "C20",
           "reply_owned(): wrong target, or a capacity overflow that is not reported as an error")

RetDrive(h, e) ==
  \* poll / recv / drive
  LET o == h.op  r == e.r
      \* C04 + C08: a deliverable PUBLISH that was consumed is returned verbatim
      h1 == IF o.hasmsg
            THEN IF r.k = "ok" /\ r.hasmsg
                 THEN Check(Check(h, SameMsg(r.msg, o.msg), "C04", "inbound PUBLISH was not surfaced exactly as sent"),
                            SameMsg(r.msg, o.msg), "C08", "valid inbound packet not accepted with the field values sent")
                 ELSE IF r.k = "err" /\ r.v \in {"Transport", "Disconnected"} /\ (o.fault \/ o.eof) THEN h
                 ELSE IF o.bad \/ o.dc \/ o.unexp \/ o.rej >= 0 THEN h
                 ELSE Viol(h, "C04", "a consumed inbound PUBLISH was not delivered by the call that read it")
            ELSE Check(h, o.dc \/ ~(r.k = "ok" /\ r.hasmsg), "C04", "a message was delivered that the broker did not send (or a duplicate)")
      \* C08: malformed input is rejected, valid input is not
      rejected == r.k = "err" /\ r.v = "InvalidPacket"
      h2 == IF o.bad /\ ~o.dc
            THEN Check(h1, rejected /\ ~e.obs.live, "C08", "malformed inbound packet was not rejected with the invalid-packet error")
            ELSE h1
      h3a == IF rejected /\ ~o.bad /\ ~o.dc /\ ~o.unexp
             THEN Check(h2, TailHopeless(h), "C08", "a valid inbound packet was rejected")
             ELSE h2
      \* C08: whatever is rejected as invalid kills the handle (also when the rejection happens while the
      \* packet is still being framed: oversized remaining length, packet larger than the buffer)
      h3b == IF rejected /\ ~o.dc
             THEN Check(h3a, ~e.obs.live, "C08", "a packet was rejected as invalid but the connection handle stayed alive")
             ELSE h3a
      \* C04: ... and if what was being read is a PUBLISH within the advertised limits, it was not delivered
      h3 == IF rejected /\ ~o.bad /\ ~o.dc /\ ~o.unexp /\ ~TailHopeless(h) /\ Len(h.rtail) >= 1
               /\ h.rtail[1] \div 16 = PUBLISH
            THEN Viol(Tick(h3b, "C04"), "C04", "an inbound PUBLISH within the advertised limits was rejected instead of being delivered")
            ELSE h3b
      \* C18: a failure reason code is surfaced by the poll that consumed it
      h4 == IF o.rej >= 0 /\ ~o.dc
            THEN Check(h3, r.k = "err" /\ r.v = "Rejected" /\ r.code = o.rej, "C18",
                       "failure reason code in an acknowledgement was not surfaced as a rejected error")
            ELSE IF r.k = "err" /\ r.v = "Rejected" /\ ~o.dc
            THEN Viol(h3, "C18", "rejected error without a failing acknowledgement")
            ELSE h3
      \* C10: a disconnect needs a cause
      timeout == h.pingAt >= 0 /\ h.now >= h.pingAt + 5000
      h5 == IF r.k = "err" /\ r.v = "Disconnected" /\ ~o.deadcall /\ ~o.eof /\ ~o.disc /\ ~o.fault /\ ~o.dc /\ ~h.c10off
            THEN Check(h4, timeout, "C10", "disconnected although no keep-alive timeout, end of stream or broker DISCONNECT occurred")
            ELSE h4
      \* C11: a broker DISCONNECT that has been consumed is reported as the disconnected error and
      \* kills the handle, whatever its reason code
      h5b == IF o.disc /\ ~o.bad /\ ~o.dc /\ ~o.unexp
             THEN Check(Tick(h5, "C11"), r.k = "err" /\ r.v = "Disconnected" /\ ~e.obs.live, "C11",
                        "a broker DISCONNECT was not reported as disconnected / did not kill the handle")
             ELSE h5
      \* C16: Ok(None) only after real wire progress
      h6 == IF o.name = "poll" /\ r.k = "ok" /\ ~r.hasmsg
            THEN Check(Tick(h5b, "C16"), o.prog, "C16", "poll returned without a message and without wire progress")
            ELSE h5b
      h7 == IF r.k = "err" /\ r.v = "InflightExhausted"
            THEN CheckKF(h6, FALSE, "C06", "a QoS 2 exchange was dropped because too many wait for PUBCOMP", "D6", TRUE)
            ELSE h6
      \* C20 is judged against the PUBLISH as the broker sent it, also when it was not surfaced verbatim
      h8 == IF o.hasmsg /\ r.k = "ok" /\ r.hasmsg THEN C20Check(h7, o.msg, r.msg.probe) ELSE h7
      \* C14: a mandatory acknowledgement that does not fit the broker's Maximum Packet Size ends the
      \* connection (every acknowledgement of this client is five bytes long).  Known finding D14: the
      \* acknowledgement became owed on an earlier connection and was carried over.
      h9 == IF r.k = "err" /\ r.v = "PacketTooLarge" /\ h.aw < Len(h.owed) /\ h.ack.have
               /\ h.ack.maxpkt >= 0 /\ h.ack.maxpkt < 5 /\ ~h.dcconn
            THEN CheckKF(Tick(h8, "C14"), ~e.obs.live, "C14",
                         "an owed acknowledgement does not fit the Maximum Packet Size and the connection was not closed",
                         "D14", h.owed[h.aw + 1].ci < h.ci)
            ELSE h8
      \* ... and one that became owed on this very connection closes it
      h10 == IF o.nofit /\ ~o.bad /\ ~o.dc /\ ~h.dcconn
             THEN Check(Tick(h9, "C14"), r.k = "err" /\ r.v = "PacketTooLarge" /\ ~e.obs.live, "C14",
                        "a packet that demands an acknowledgement longer than the Maximum Packet Size did not close the connection")
             ELSE h9
  IN h10

RetConn(h, e) ==
  LET o == h.op  r == e.r  a == h.ack
      good == a.have /\ a.rc < 128 /\ a.propsok /\ ~o.bad /\ ~o.dc /\ ~o.unexp
      h1 == IF good /\ ~o.fault /\ ~o.eof
            THEN Check(h, r.k = "ok" /\ r.v = (IF a.sp = 1 THEN "Reconnected" ELSE "Connected"), "C05",
                       "connect() result does not mirror the broker's session-present answer")
            ELSE Check(h, r.k # "ok", "C05", "connect() succeeded without a valid successful CONNACK")
      h2 == IF a.have /\ a.rc >= 128 /\ ~o.bad /\ ~o.dc
            THEN CheckKF(h1, r.k = "err" /\ r.v = "Rejected" /\ r.code = a.rc, "C08",
                         "CONNACK reason code not surfaced with the value sent", "D13", a.rc \in {138, 139})
            ELSE h1
      h3 == IF o.bad /\ ~o.dc
            THEN Check(h2, r.k = "err" /\ r.v = "InvalidPacket", "C08", "malformed CONNACK was not rejected with the invalid-packet error")
            ELSE h2
      h4 == IF r.k = "err" /\ r.v = "InvalidPacket" /\ ~o.bad /\ ~o.dc /\ ~o.unexp /\ (a.have => a.propsok)
            THEN Check(h3, TailHopeless(h), "C08", "a valid inbound packet was rejected")
            ELSE h3
      \* C12: the director promised a healthy transport and a conformant, accepting broker
      d9b == r.k = "err" /\ r.v = "BufferTooSmall" /\ e.obs.io = << 0, 0, 0 >> /\ h.connectLen > h.cfg.rx
      h5 == IF o.healthy /\ ~o.fault /\ ~o.eof /\ (a.have => good)
            THEN [CheckKF(Tick(h4, "C12"), r.k = "ok", "C12",
                          "connect() over a healthy transport to a conformant broker failed", "D9b", d9b)
                  EXCEPT !.d9b = @ \/ d9b]
            ELSE h4
      ok == r.k = "ok"
      K == IF a.ska >= 0 THEN a.ska * 1000 ELSE h.kaAdv * 1000
  IN [h5 EXCEPT !.up = ok, !.everOk = @ \/ ok,
                !.cleanDc = IF ok THEN FALSE ELSE (@ \/ (a.have /\ a.rc < 128 /\ a.sp = 0)),
                !.K = IF ok THEN K ELSE @,
                !.kaAdv = IF ok /\ a.ska >= 0 THEN a.ska ELSE @,
                !.rejSka = IF ok THEN -1 ELSE IF a.have /\ a.ska >= 0 THEN a.ska ELSE @,
                !.cid = IF ok /\ a.hasaci THEN a.aci ELSE @,
                !.lastDone = h.now, !.overslept = FALSE]

\* triggers after which a handle is dead for good (C11)
DeathTrigger(h, e) ==
  LET r == e.r IN
  \/ (r.k = "err" /\ r.v \in {"Transport", "Disconnected"})
  \/ (r.k = "err" /\ r.v = "InvalidPacket" /\ h.op.name \in {"poll", "recv", "drive"})
  \/ (h.op.name = "disconnect" /\ r.k = "ok")
  \* "the transport is finished after a DISCONNECT regardless of the write outcome" -- also when the transport
  \* took nothing of it (write-zero runs)
  \/ (h.op.name = "disconnect" /\ r.k = "err" /\ r.v = "WriteZero" /\ ~e.obs.live)
  \/ (r.k = "err" /\ r.v = "PacketTooLarge" /\ h.op.name \in {"poll", "recv", "drive"} /\ h.op.nofit /\ ~e.obs.live)

StepRet(h, e) ==
  LET o == h.op
      ha == IF o.name = "conn" THEN RetConn(h, e)
            ELSE IF o.deadcall THEN RetDead(h, e)
            ELSE IF o.name \in {"poll", "recv", "drive"} THEN RetDrive(h, e)
            ELSE IF o.name = "publish" /\ o.q = 0 THEN RetQ0(h, e)
            ELSE IF o.name \in {"publish", "subscribe", "unsubscribe"} THEN RetRequest(h, e)
            ELSE IF o.name = "disconnect" THEN
                 LET inval == ArgsInvalid(o) IN
                 IF e.r.k = "err" /\ e.r.v = "InvalidRequest"
                 THEN Check(h, inval, "C19", "a request with legal arguments was refused as invalid")
                 ELSE IF e.r.k = "ok"
                 THEN Check(h, ~inval, "C19", "a request with illegal arguments was not refused as invalid")
                 ELSE CheckKF(h, ~(e.r.k = "err" /\ e.r.v = "BufferTooSmall"), "C19",
                              "a DISCONNECT with legal properties was refused", "D11c", ~inval)
            ELSE h
      \* C01 / C13: a graceful disconnect that returns Ok has put one whole DISCONNECT packet at the end of
      \* the stream -- not into the middle of a packet an earlier cancelled call left half-written
      hgd == IF o.name = "disconnect" /\ ~o.deadcall /\ e.r.k = "ok" /\ h.taint = 0 /\ ~h.dcan
                /\ ~(h.wtail = << >> /\ h.wdisc)
             THEN LET x == Viol(ha, "C01", "disconnect() returned Ok but the stream does not end with a whole DISCONNECT packet")
                  \* (a packet is half-written only where the transport took part of it: also a matter of C15)
                  IN IF h.cmid THEN Viol(Viol(Tick2(x, "C13", "C15"), "C13", "the packet a cancelled operation left half-written was corrupted by what followed"),
                                         "C15", "a packet the transport had taken only part of was corrupted by what followed")
                     ELSE x
             ELSE ha
      hb == IF o.name # "conn" /\ hgd.up /\ DeathTrigger(h, e)
            THEN [hgd EXCEPT !.dead = TRUE] ELSE hgd
      hc == ObsChecks(hb, e.obs)
  IN [hc EXCEPT !.op = NoOp,
                !.sum.res = Append(@, << o.name, e.r.k, e.r.v, e.r.code >>),
                !.sum.msgs = IF e.r.hasmsg THEN Append(@, e.r.msg) ELSE @]

StepCancel(h, e) ==
  LET o == h.op
      h1 == IF o.name \in {"publish", "subscribe", "unsubscribe"} /\ "req" \in DOMAIN o /\ o.req # 0
            THEN [h EXCEPT !.reqs[o.req].st = IF @ = "pend" THEN "unk" ELSE @]
            ELSE h
      h2 == ObsChecks(h1, e.obs)
      wrote == o.name = "disconnect" /\ o.prog
  IN [h2 EXCEPT !.op = NoOp, !.sum.res = Append(@, << o.name, "cancel", "", -1 >>),
                !.dcan = @ \/ wrote, !.pcan = @ \/ h.pingOut \/ h.pingAt >= 0,
                !.cmid = @ \/ (h.wtail # << >> /\ ~wrote),
                !.taint = IF wrote /\ h.wtail # << >> /\ @ = 0 THEN 1 ELSE @]

StepW(h, e) ==
  LET h0 == IoOnDead(h)
      h1 == [h0 EXCEPT !.wtail = @ \o e.bytes, !.op.prog = IF e.acc > 0 THEN TRUE ELSE @,
                       !.pfrag = @ \/ e.acc < e.len]
  IN \* D2: a disconnect() dropped after part of its DISCONNECT was written leaves the handle live
     \* with a broken packet on the wire; whatever is written next starts inside that packet and
     \* the rest of this transport's byte stream can no longer be framed.
     IF h.taint = 1
     THEN LET k == CheckKF(h1, FALSE, "C01", "a packet starts in the middle of a cancelled DISCONNECT", "D2", TRUE)
          IN [CheckKF(k, FALSE, "C13", "a cancelled disconnect corrupts the outbound stream", "D2", TRUE)
              EXCEPT !.taint = 2]
     ELSE DrainOut(h1)

StepF(h, e) ==
  LET h0 == IoOnDead(h) IN
  IF e.r = "ok" THEN
     [h0 EXCEPT !.owed = SubSeq(@, h.aw + 1, Len(@)), !.aw = 0, !.op.prog = TRUE,
                !.pingAt = IF h.pingOut /\ h.wtail = << >> THEN h.now ELSE @, !.pingOut = FALSE]
  ELSE IF e.r = "err" THEN [h0 EXCEPT !.op.fault = TRUE]
  ELSE [h0 EXCEPT !.pio = "f"]

StepR(h, e) == DrainIn([IoOnDead(h) EXCEPT !.rtail = @ \o e.bytes])

\* C16: after the benign continuation (healthy transport, conformant broker, resumed session,
\* poll() until nothing is outstanding) everything accepted has completed
StepDrainEnd(h, e) ==
  LET o == h.lastobs
      \* D9b makes the reconnect itself impossible; nothing can then complete
      h1 == CheckKF(Tick(h, "C16"), e.done, "C16", "benign continuation did not reach a quiescent session within the step bound", "D9b", h.d9b)
      h2 == CheckKF(h1, \A i \in 1..Len(o.h) : o.h[i] # "p", "C16", "an operation is still pending after the benign continuation", "D9b", h.d9b)
      h3 == Check(h2, h.owed = << >>, "C16", "an owed acknowledgement was never sent")
      stuck == {k \in 1..Len(h.reqs) : InFlight(h, k)}
      h4 == IF stuck # {} /\ e.done
            THEN LET k == CHOOSE k \in stuck : TRUE IN
                 Viol(h3, IF h.reqs[k].kind = "P1" THEN "C02" ELSE IF h.reqs[k].kind = "P2" THEN "C03" ELSE "C05",
                      "an accepted operation was never completed although the broker answered everything")
            ELSE h3
      \* the drain polled a live, resumed connection to the end and an owed retransmission never came
      owing == Owing(h)
      h5 == IF ~e.done /\ h.up /\ ~h.dead /\ h.ack.have /\ h.ack.sp = 1 /\ owing # {}
            \* (C12: a connection that does not bring back what is in flight leaves the session unusable)
            THEN ViolEach(h4, h, {OwedProp(h.reqs[j]) : j \in owing} \cup {"C05", "C12"},
                          "an unacknowledged request was never retransmitted on the resumed connection")
            ELSE h4
  IN h5

\* C13 / C15: the run that just ended (h.sum) and the run before it (h.prev) are a twin pair: the
\* same program against the same deterministic broker, once undisturbed and once with
\* cancellations at pending points (continued by poll / drive) or with arbitrary fragmentation of
\* reads and writes.  Requests cancelled before they were enqueued are absent from the base run.
\* C17: the run before (h.prev) is a brand-new session, the run that just ended (h.sum) one that
\* lived through a random history and was drained; from `capstart` on both ran the same requests
\* against the same deterministic broker and must have been answered alike (sizes and counts)
StepAged(h, e) ==
  LET a == h.prev  b2 == h.sum
      h1 == Check(Tick(h, "C17"), a.res = b2.res, "C17",
                  "an aged quiescent session answers the probe requests differently from a brand-new one")
  IN IF PrintT("@STAT " \o ToJson([run |-> h.cfg.name, n |-> [q \in AllProps |-> IF q = "C17" THEN 1 ELSE 0]]))
     THEN h1 ELSE h1

StepTwin(h, e) ==
  IF e.kind = "aged" THEN StepAged(h, e) ELSE
  LET p == IF e.kind = "cancel" THEN "C13" ELSE "C15"
      a == h.prev  b2 == h.sum
      \* packets of one class, in order (class by packet type: requests, PUBREL, acknowledgements, other)
      Class(pk) == LET t == pk[2][1] \div 16 IN
                   IF t \in {PUBLISH, SUBSCRIBE, UNSUBSCRIBE} THEN 1 ELSE IF t = PUBREL THEN 2
                   ELSE IF t \in {PUBACK, PUBREC, PUBCOMP} THEN 3 ELSE 4
      OfClass(sq, k) == SelectSeq(sq, LAMBDA pk : Class(pk) = k)
      \* When a request was cancelled before it was enqueued the base run lacks that call altogether,
      \* so the flush the cancelled call performed may have sent an owed packet a little earlier:
      \* then each class of packets is compared as a sequence of its own instead of the interleaving.
      \* "stall" twins: the variant run has a 2 s keep-alive and up to two stalls, so it may contain
      \* PINGREQs (left out) and a poll that was used up by a PINGREQ reads its inbound packet one
      \* poll later, which may move an acknowledgement relative to the requests: per-class
      \* comparison as well
      NoPing(sq) == SelectSeq(sq, LAMBDA pk : pk[2][1] \div 16 # PINGREQ)
      same == IF e.kind = "stall"
              THEN \A k \in 1..4 : OfClass(NoPing(a.out), k) = OfClass(NoPing(b2.out), k)
              ELSE IF e.dropped = 0 THEN a.out = b2.out
              ELSE \A k \in 1..4 : OfClass(a.out, k) = OfClass(b2.out, k)
      h1 == Check(Tick(h, p), same, p,
                  "outbound packet sequence differs between the twin runs")
      h2 == Check(h1, a.msgs = b2.msgs, p, "delivered inbound messages differ between the twin runs")
      h3 == IF e.kind = "fragment"
            THEN Check(h2, a.res = b2.res, p, "operation results differ between the twin runs")
            ELSE h2
      \* a pair whose runs differ in fragmentation AND were cancelled at the same places speaks for both
      h4 == IF e.kind = "fragcancel"
            THEN Check(Check(h3, same, "C13", "outbound packet sequence differs between the twin runs"),
                       a.msgs = b2.msgs, "C13", "delivered inbound messages differ between the twin runs")
            ELSE h3
  IN IF PrintT("@STAT " \o ToJson([run |-> h.cfg.name,
                                  n |-> [q \in AllProps |-> IF q = p \/ (e.kind = "fragcancel" /\ q = "C13") THEN 1 ELSE 0]]))
     THEN h4 ELSE h4

\* C12: connect() "starts with a complete CONNECT on the new transport": it turns to the CONNACK only once the
\* transport has taken the whole CONNECT (a transport may take any part of what a write offers)
ConnReads(h) ==
  IF h.op.name = "conn" /\ h.wtail # << >> /\ h.taint = 0
  THEN Viol(h, "C12", "connect() waits for the CONNACK while its CONNECT is only partly written")
  ELSE h

Step(h0, e) ==
  LET h == [h0 EXCEPT !.v = << >>, !.kf = << >>] IN
  \* after known finding D2 has garbled a transport's byte stream nothing observed later in this
  \* run can be attributed reliably: monitoring resumes with the next run
  IF h.taint = 2 /\ e.e # "cfg" THEN h ELSE
  CASE e.e = "cfg" -> Fresh(h.l, e.cfg, h.sum)
    [] e.e = "conn" -> StepConn(h, e)
    [] e.e \in {"publish", "subscribe", "unsubscribe", "poll", "recv", "drive", "disconnect"} -> StepCall(h, e)
    [] e.e = "w" -> StepW(h, e)
    [] e.e = "wpend" -> [IoOnDead(h) EXCEPT !.pio = "w"]
    [] e.e = "werr" -> [IoOnDead(h) EXCEPT !.op.fault = TRUE]
    [] e.e = "f" -> StepF(h, e)
    [] e.e = "r" -> StepR(ConnReads(h), e)
    [] e.e = "rpend" -> [IoOnDead(ConnReads(h)) EXCEPT !.pio = "r"]
    [] e.e = "reof" -> [IoOnDead(h) EXCEPT !.op.eof = TRUE]
    [] e.e = "rerr" -> [IoOnDead(h) EXCEPT !.op.fault = TRUE]
    [] e.e = "yield" -> C10Yield(h, e.wake)
    [] e.e = "adv" ->
         \* time that passes while the client keeps running (it re-polls read without yielding,
         \* e.spin) is not the application oversleeping
         \* C10 presupposes a transport that accepts writes: once time has passed while a write or
         \* flush was pending, the keep-alive monitors stand down for this connection
         [h EXCEPT !.now = e.to, !.c10off = @ \/ (h.pio \in {"w", "f"} /\ h.pe = "yield"),
                   \* a deadline that was already over when the client named it means "wake me at
                   \* once": it keeps being polled, time that passes then is not oversleeping either
                   \* (but then it expects to be polled continuously: a jump of more than 300 ms is)
                   !.overslept = @ \/ (~e.spin /\ (~(h.op.name \in {"poll", "recv"}) \/ h.wake < 0
                                                   \/ (h.wake > h.now /\ e.to > h.wake)
                                                   \/ (h.wake <= h.now /\ e.to > h.now + 300)))]
    [] e.e = "b" -> DrainBroker([h EXCEPT !.btail = @ \o e.bytes])
    [] e.e = "ret" -> StepRet(h, e)
    [] e.e = "cancel" -> StepCancel(h, e)
    [] e.e = "drop" -> ObsChecks([h EXCEPT !.up = FALSE, !.op = NoOp], e.obs)
    [] e.e = "panic" -> Viol(h, "PANIC", "the client panicked")
    [] e.e = "watchdog" -> Viol(h, "C16", "run-away: I/O watchdog tripped (unbounded loop or re-sending)")
    [] e.e = "drainend" -> StepDrainEnd(h, e)
    [] e.e = "twin" -> StepTwin(h, e)
    [] e.e = "capstart" -> [h EXCEPT !.sum = EmptySum]
    \* C19: Will::new refuses exactly the wills whose properties are not legal on a will
    [] e.e = "cfgerr" ->
         IF e.what = "will" /\ e.err = "InvalidConfig"
         THEN Check(Tick(h, "C19"), ~ReqPropsOk(h.cfg.will.props, CtxWill), "C19",
                    "a will with legal properties was refused as invalid")
         ELSE h
    [] e.e = "end" -> IF PrintT("@STAT " \o ToJson([run |-> h.cfg.name, n |-> h.n])) THEN h ELSE h
    [] OTHER -> h

---------------------------------------------------------------------------
\* the trace specification

Init == H = Fresh(1, [client_id |-> << >>, ka |-> 0, rx |-> 0, name |-> ""], EmptySum)

Next ==
  /\ H.l <= Len(Rec)
  /\ H' = [Step(H, Rec[H.l]) EXCEPT !.l = H.l + 1, !.pe = Rec[H.l].e]

Spec == Init /\ [][Next]_H

\* side-effect reporter (always TRUE): one line per violation / known-finding hit
Report ==
  /\ \A i \in 1..Len(H.v) : PrintT("@VIOL " \o ToJson(H.v[i]))
  /\ \A i \in 1..Len(H.kf) : PrintT("@KF " \o ToJson(H.kf[i]))

Holds(p) == \A i \in 1..Len(H.v) : H.v[i].p # p
Inv_C01 == Holds("C01")    Inv_C02 == Holds("C02")    Inv_C03 == Holds("C03")
Inv_C04 == Holds("C04")    Inv_C05 == Holds("C05")    Inv_C06 == Holds("C06")
Inv_C07 == Holds("C07")    Inv_C08 == Holds("C08")    Inv_C09 == Holds("C09")
Inv_C10 == Holds("C10")    Inv_C11 == Holds("C11")    Inv_C12 == Holds("C12")
Inv_C13 == Holds("C13")    Inv_C15 == Holds("C15")
Inv_C14 == Holds("C14")    Inv_C16 == Holds("C16")    Inv_C17 == Holds("C17")
Inv_C18 == Holds("C18")    Inv_C19 == Holds("C19")    Inv_C20 == Holds("C20")

Done == H.l > Len(Rec) => PrintT("@DONE " \o ToString(Len(Rec)))
=============================================================================
