SPECIFICATION Spec
CONSTANTS
  Lens = {9, 12, 20}
  Maxes = {1000000, 4, 5, 8, 9, 12, 19}
  InIds = {1, 2}
  MaxOps = 6
  MaxConn = 3
  Stalls = TRUE
  Dev = {}
  Record = FALSE
INVARIANTS Inv_C14_wire Inv_C14_stored Inv_C12_usable Inv_KF Inv_C04_recorded Inv_C04_once Inv_C04_delivered
CHECK_DEADLOCK FALSE
