SPECIFICATION Spec
CONSTANTS
  K = 2000
  Ks = {0, 2000, 7000}
  MaxConn = 3
  UNIT = 500
  MaxT = 12000
  Dev = {}
  Record = FALSE
INVARIANTS Inv_C10 Inv_C10_timer Inv_C10_detect Inv_C10_zero Inv_C10_queue
CHECK_DEADLOCK FALSE
