SPECIFICATION Spec
CONSTANTS
  MaxOps = 3
  MaxConns = 2
  IdMax = 60
  Cap = 8
  CtlCap = 8
  RMs = {3}
  MaxIn = 0
  MaxFail = 0
  MaxQ0 = 0
  Kinds = {"P2"}
  Parts = {FALSE}
  MaxCancel = 0
  MaxFault = 0
  Zeros = FALSE
  Dev = {}
  Record = FALSE
INVARIANTS
  Inv_C01 Inv_C02 Inv_C03 Inv_C05 Inv_C06 Inv_C07 Inv_C11 Inv_C12 Inv_C16 Inv_C18 Inv_Caps
CHECK_DEADLOCK FALSE
