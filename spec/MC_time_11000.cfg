SPECIFICATION Spec
CONSTANTS
  K = 11000
  Ks = {11000}
  MaxConn = 1
  UNIT = 1000
  MaxT = 40000
  Dev = {}
  Record = FALSE
INVARIANTS Inv_C10 Inv_C10_timer Inv_C10_detect Inv_C10_zero Inv_C10_queue
CHECK_DEADLOCK FALSE
