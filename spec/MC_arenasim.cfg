SPECIFICATION Spec
CONSTANTS
  CAP = 256
  Lens <- LensS
  QLens <- QLensS
  MaxRet = 8
  MaxOps = 40
  ConnLen = 30
  Dev = {}
  Record = TRUE
INVARIANTS Emit Inv_C17_intact Inv_C17_layout Inv_C17_recover Inv_C17_free
CHECK_DEADLOCK FALSE
