SPECIFICATION Spec
CONSTANTS
  MaxOps = 4
  MaxConns = 1
  IdMax = 3
  Cap = 1
  CtlCap = 2
  RMs = {1}
  MaxIn = 0
  MaxFail = 0
  MaxQ0 = 0
  Kinds = {"P2", "SUB"}
  Parts = {TRUE, FALSE}
  MaxCancel = 0
  MaxFault = 0
  Zeros = FALSE
  Dev = {"id_no_inuse_check"}
  Record = FALSE
VIEW View
INVARIANTS
  Inv_C01 Inv_C02 Inv_C03 Inv_C05 Inv_C06 Inv_C07 Inv_C11 Inv_C12 Inv_C16 Inv_C18 Inv_Caps
CHECK_DEADLOCK FALSE
