---------------------------- MODULE MC_arenasim ----------------------------
(* Behaviour generation for the transmit arena (see tools/replay_arena.py). *)
EXTENDS Arena, Json

\* total packet lengths: small ones, both sides of the 2/3-byte fixed header boundary (130 does not exist),
\* and everything around the arena-filling size
Around == {CAP - k : k \in 2..12}
LensS == {l \in {8, 9, 10, 23, 60, 100, 129, 131, 140, 180} \cup Around : l >= 8 /\ l <= CAP /\ l # 130}
QLensS == {l \in {6, 7, 40, 129, 131, 200} \cup Around : l >= 6 /\ l <= CAP /\ l # 130}
Emit == (hist # << >>) => PrintT("@H " \o ToString(TLCGet("stats").traces) \o " " \o ToJson(hist))
=============================================================================
