---------------------------- MODULE MC_arenasim ----------------------------
(* Behaviour generation for the transmit arena (see tools/replay_arena.py). *)
EXTENDS Arena, Json

LensS == {8, 9, 10, 23, 60, 100, 129, 131, 140, 180, 246, 248, 249, 250}
QLensS == {6, 7, 40, 129, 131, 200, 245, 248, 249, 250, 251}
Emit == (hist # << >>) => PrintT("@H " \o ToString(TLCGet("stats").traces) \o " " \o ToJson(hist))
=============================================================================
