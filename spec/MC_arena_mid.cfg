SPECIFICATION Spec
CONSTANTS
  CAP = 200
  Lens <- LensC
  QLens <- QLensC
  MaxRet = 8
  MaxOps = 5
  ConnLen = 30
  Dev = {}
  Record = FALSE
INVARIANT Inv_C17_intact
INVARIANT Inv_C17_layout
INVARIANT Inv_C17_recover
INVARIANT Inv_C17_free
CHECK_DEADLOCK FALSE
