------------------------------ MODULE MC_arena ------------------------------
EXTENDS Arena
\* total lengths: short packets (2-byte fixed header, slack 3), one with a 3-byte header (slack 2),
\* one that fills most of the arena
LensC == {10, 23, 140}
QLensC == {9, 60, 135}
View == << buf, used, ret, ops, last >>
=============================================================================
