------------------------------- MODULE Timers -------------------------------
(***************************************************************************)
(* Keep-alive of the minimq client (session/state.rs RuntimeState,           *)
(* session/drive.rs service / complete_flush / wait_for_progress,            *)
(* inbound.rs PINGRESP) while the application waits in poll() on a transport  *)
(* that accepts writes at once.                                              *)
(*                                                                          *)
(* Time is a natural number of UNIT milliseconds.  One step is either the     *)
(* environment letting time pass up to (never beyond) the deadline the        *)
(* client asked to be woken at, a PINGRESP / other inbound packet arriving,    *)
(* the application sending a QoS 0 publish, or the client being polled: it     *)
(* then runs service() exactly like the code: keep-alive timeout check, queue  *)
(* PINGREQ if due, write + flush it (complete_flush arms the 5 s round-trip     *)
(* timer and re-arms the send deadline).                                      *)
(*                                                                          *)
(* K is the effective keep-alive (ms).  LEAD = min(5000, K/2);                 *)
(* SendInterval = K - LEAD.  K = 0 disables everything.                       *)
(***************************************************************************)
EXTENDS Naturals, Sequences, TLC

CONSTANTS K,        \* effective keep-alive in ms (0 = disabled)
          UNIT,     \* ms per time step
          MaxT,     \* explore until this time (ms)
          Dev,      \* deviations: "ping_rearm_on_pingresp", "timeout_at_queue_time", "lead_quarter"
          Record

RTT == 5000
Min(a, b) == IF a < b THEN a ELSE b
Lead == IF "lead_quarter" \in Dev THEN Min(RTT, K \div 4) ELSE Min(RTT, K \div 2)
SendInterval == K - Lead

VARIABLES now,        \* ms
          live,
          nextPing,   \* deadline or -1 (None)
          pingTimeout,\* deadline or -1
          waiting,    \* the client is suspended in with_deadline(read) -- it was polled and found nothing to do
          wake,       \* the deadline it asked to be woken at (-1: none)
          inbox,      \* inbound packets not yet read: sequence of "PINGRESP" / "OTHER"
          lastDone,   \* completion time of the last client packet
          pingAt,     \* completion time of the outstanding PINGREQ, or -1
          pingDone,   \* time the last PINGRESP was consumed, or -1
          viol,       \* monitor: set of violated property names
          susp,       \* a poll() is suspended in with_deadline(read)
          hist

vars == << now, live, nextPing, pingTimeout, waiting, wake, inbox, lastDone, pingAt, pingDone, viol, susp, hist >>

None == 0 - 1
Deadline == IF nextPing # None /\ pingTimeout # None THEN Min(nextPing, pingTimeout)
            ELSE IF nextPing # None THEN nextPing ELSE pingTimeout

Log(a, p) == IF Record THEN Append(hist, [a |-> a, p |-> p, now |-> now', np |-> nextPing', pt |-> pingTimeout', live |-> live'])
             ELSE hist

Init ==
  /\ now = 0 /\ live = TRUE
  /\ nextPing = IF K = 0 THEN None ELSE SendInterval      \* note_outbound_activity at CONNACK
  /\ pingTimeout = None
  /\ waiting = FALSE /\ wake = None /\ inbox = << >>
  /\ lastDone = 0 /\ pingAt = None /\ pingDone = None
  /\ viol = {} /\ susp = FALSE /\ hist = << >>

\* ---- monitors (C10) --------------------------------------------------------------------------
\* D10 (open): with K < 5000 the client is silent until the PINGRESP arrives or RTT expires
D10Excuse(gap) == K < 5000 /\ (pingAt # None \/ pingDone = now) /\ gap <= RTT

SentAt(t, v) ==
  \* a client packet completes at time t
  IF K > 0 /\ t - lastDone > K /\ ~D10Excuse(t - lastDone) THEN v \cup {"gap"} ELSE v

\* ---- the client is polled (drive_packet / wait_for_progress up to the next await or return) ----------
\* A poll() that was suspended in with_deadline(read) (susp) looks at the transport first; a fresh
\* poll() runs service() first.  After a packet has been handled the same call goes round its loop
\* once more: service() again (timeout check, PINGREQ if due), then it returns.
\* The client-side state is handled as a record so that the steps compose.
Cl == [live |-> live, np |-> nextPing, pt |-> pingTimeout, ld |-> lastDone, pa |-> pingAt, pd |-> pingDone,
       v |-> viol, did |-> "none"]

\* service(): keep-alive timeout, else PINGREQ if due (write + flush + complete_flush)
Service(x) ==
  IF x.pt # None /\ now >= x.pt THEN
     [x EXCEPT !.live = FALSE, !.np = None, !.pt = None, !.did = "timeout",
               !.v = IF x.pa = None \/ now < x.pa + RTT THEN @ \cup {"early_timeout"} ELSE @]
  ELSE IF x.pt = None /\ x.np # None /\ now >= x.np THEN
     [x EXCEPT !.pt = (IF "timeout_at_queue_time" \in Dev THEN x.np ELSE now) + RTT, !.np = now + SendInterval,
               !.pa = now, !.ld = now, !.did = "ping",
               !.v = (IF K > 0 /\ now - x.ld > K /\ ~(K < 5000 /\ (x.pa # None \/ x.pd = now) /\ now - x.ld <= RTT)
                      THEN @ \cup {"gap"} ELSE @) \cup (IF K = 0 THEN {"ping_with_zero"} ELSE {})]
  ELSE x

\* one inbound packet is read and handled
Read(x, p) ==
  IF p = "PINGRESP"
  THEN [x EXCEPT !.pt = None, !.pa = None, !.pd = now,
                 !.np = IF "ping_rearm_on_pingresp" \in Dev /\ K > 0 THEN now + SendInterval ELSE @]
  ELSE x

Commit(x, what, p) ==
  /\ live' = x.live /\ nextPing' = x.np /\ pingTimeout' = x.pt /\ lastDone' = x.ld /\ pingAt' = x.pa
  /\ pingDone' = x.pd /\ viol' = x.v
  /\ waiting' = FALSE /\ wake' = None /\ susp' = FALSE
  /\ hist' = Log(what, p)

Poll ==
  /\ live
  /\ UNCHANGED now
  /\ IF susp /\ inbox # << >> THEN
       \* the suspended read completes; then once more round the loop
       LET y == Service(Read(Cl, Head(inbox))) IN
       /\ inbox' = Tail(inbox)
       /\ Commit(y, "read", << Head(inbox), y.did >>)
     ELSE
       LET x == Service(Cl) IN
       IF x.did # "none" THEN /\ UNCHANGED inbox /\ Commit(x, x.did, << >>)
       ELSE IF inbox # << >> THEN
            LET y == Service(Read(Cl, Head(inbox))) IN
            /\ inbox' = Tail(inbox)
            /\ Commit(y, "read", << Head(inbox), y.did >>)
       ELSE
         \* nothing to do: suspend in with_deadline(next_deadline, read)
         /\ waiting' = TRUE /\ wake' = Deadline /\ susp' = TRUE
         \* the client must not sleep past the keep-alive, nor past the round-trip bound
         /\ viol' = (IF K > 0 /\ (Deadline = None \/ Deadline > lastDone + K)
                        /\ ~(K < 5000 /\ pingAt # None /\ Deadline # None /\ Deadline <= pingAt + RTT)
                     THEN viol \cup {"sleeps_past_keepalive"} ELSE viol)
                    \cup (IF pingAt # None /\ (Deadline = None \/ Deadline > pingAt + RTT) THEN {"sleeps_past_rtt"} ELSE {})
         /\ UNCHANGED << live, nextPing, pingTimeout, inbox, lastDone, pingAt, pingDone >>
         /\ hist' = Log("yield", Deadline)

\* ---- environment ----------------------------------------------------------------------------------
\* time passes; while the client sleeps with a future deadline time does not pass beyond it; a client
\* whose deadline is overdue is polled before time moves on (it never yields with work to do)
Tick ==
  /\ now + UNIT <= MaxT
  /\ waiting
  /\ wake = None \/ wake <= now \/ now + UNIT <= wake
  /\ now' = now + UNIT
  /\ waiting' = IF wake # None /\ (wake <= now \/ now + UNIT >= wake) THEN FALSE ELSE waiting
  /\ UNCHANGED << live, nextPing, pingTimeout, wake, inbox, lastDone, pingAt, pingDone, viol, susp >>
  /\ hist' = Log("adv", now + UNIT)

\* the broker answers an outstanding PINGREQ (any time), or sends something else
Arrive(p) ==
  /\ live /\ Len(inbox) < 1
  /\ p = "PINGRESP" => pingAt # None
  /\ inbox' = Append(inbox, p)
  /\ waiting' = FALSE
  /\ UNCHANGED << now, live, nextPing, pingTimeout, wake, lastDone, pingAt, pingDone, viol, susp >>
  /\ hist' = Log("b", p)

\* the application publishes at QoS 0 between polls (note_outbound_activity)
Publish0 ==
  /\ live /\ waiting
  /\ nextPing' = IF K = 0 THEN None ELSE now + SendInterval
  /\ lastDone' = now
  /\ viol' = SentAt(now, viol)
  /\ waiting' = FALSE /\ wake' = None /\ susp' = FALSE      \* the pending poll() is dropped first
  /\ UNCHANGED << now, live, pingTimeout, inbox, pingAt, pingDone >>
  /\ hist' = Log("q0", << >>)

Next == (~waiting /\ Poll) \/ Tick \/ Arrive("PINGRESP") \/ Arrive("OTHER") \/ Publish0

Spec == Init /\ [][Next]_vars

\* ---- properties ------------------------------------------------------------------------------------
Inv_C10 == viol = {}
\* the client is never suspended without a timer while the keep-alive is on
Inv_C10_timer == (live /\ waiting /\ K > 0) => wake # None
\* an unanswered PINGREQ ends the wait at the round-trip bound: the client cannot be past it and asleep
Inv_C10_detect == (live /\ pingAt # None /\ waiting) => now < pingAt + RTT + UNIT
\* keep-alive zero sends no pings
Inv_C10_zero == K = 0 => pingAt = None
=============================================================================
