------------------------------- MODULE Timers -------------------------------
(***************************************************************************)
(* Keep-alive of the minimq client (session/state.rs RuntimeState,           *)
(* session/drive.rs service / complete_flush / wait_for_progress,            *)
(* inbound.rs PINGRESP) while the application waits in poll() on a transport  *)
(* that accepts writes at once.                                              *)
(*                                                                          *)
(* Time is a natural number of UNIT milliseconds.  One step is either the     *)
(* environment letting time pass up to (never beyond) the deadline the        *)
(* client asked to be woken at, a PINGRESP / other inbound packet arriving,    *)
(* the application sending a QoS 0 publish, or the client being polled: it     *)
(* then runs service() exactly like the code: keep-alive timeout check, queue  *)
(* PINGREQ if due, write + flush it (complete_flush arms the 5 s round-trip     *)
(* timer and re-arms the send deadline).                                      *)
(*                                                                          *)
(* k is the effective keep-alive of the current connection (ms).             *)
(* LEAD = min(5000, k/2); SendInterval = k - LEAD.  k = 0 disables everything. *)
(*                                                                          *)
(* Connections: the first one has keep-alive K; Drop ends a connection        *)
(* (handle_disconnect: reset_transport + arm_replay), Connect(k2) starts the   *)
(* next with the effective keep-alive the new CONNACK yields (Server Keep      *)
(* Alive), up to MaxConn connections.  Stall is a poll whose PINGREQ is due    *)
(* while the transport does not take it: the PINGREQ stays queued in the       *)
(* control queue and the poll is dropped.  A queued PINGREQ is transport       *)
(* state: arm_replay discards it (deviation "replay_queued_ping": it is kept    *)
(* and sent on the next connection -- defect D16, repaired).                   *)
(***************************************************************************)
EXTENDS Naturals, Sequences, TLC

CONSTANTS K,        \* effective keep-alive of the first connection in ms (0 = disabled)
          Ks,       \* effective keep-alives a later connection may get
          MaxConn,  \* number of connections explored (1: no reconnect)
          UNIT,     \* ms per time step
          MaxT,     \* explore until this time (ms)
          Dev,      \* deviations: "ping_rearm_on_pingresp", "timeout_at_queue_time", "lead_quarter", "replay_queued_ping", "q0_stamp_before_write"
          Record

RTT == 5000
Min(a, b) == IF a < b THEN a ELSE b
Lead(kk) == IF "lead_quarter" \in Dev THEN Min(RTT, kk \div 4) ELSE Min(RTT, kk \div 2)
SendIntervalOf(kk) == kk - Lead(kk)

VARIABLES now,        \* ms
          k,          \* effective keep-alive of the current connection
          conn,       \* connections so far
          queued,     \* a PINGREQ sits unsent in the control queue
          live,
          nextPing,   \* deadline or -1 (None)
          pingTimeout,\* deadline or -1
          waiting,    \* the client is suspended in with_deadline(read) -- it was polled and found nothing to do
          wake,       \* the deadline it asked to be woken at (-1: none)
          inbox,      \* inbound packets not yet read: sequence of "PINGRESP" / "OTHER"
          lastDone,   \* completion time of the last client packet
          pingAt,     \* completion time of the outstanding PINGREQ, or -1
          pingDone,   \* time the last PINGRESP was consumed, or -1
          viol,       \* monitor: set of violated property names
          susp,       \* a poll() is suspended in with_deadline(read)
          hist

SendInterval == SendIntervalOf(k)

vars == << now, k, conn, queued, live, nextPing, pingTimeout, waiting, wake, inbox, lastDone, pingAt, pingDone, viol, susp, hist >>

None == 0 - 1
Deadline == IF nextPing # None /\ pingTimeout # None THEN Min(nextPing, pingTimeout)
            ELSE IF nextPing # None THEN nextPing ELSE pingTimeout

Log(a, p) == IF Record THEN Append(hist, [a |-> a, p |-> p, now |-> now', np |-> nextPing', pt |-> pingTimeout', live |-> live'])
             ELSE hist

Init ==
  /\ now = 0 /\ live = TRUE /\ k = K /\ conn = 1 /\ queued = FALSE
  /\ nextPing = IF K = 0 THEN None ELSE SendIntervalOf(K)      \* note_outbound_activity at CONNACK
  /\ pingTimeout = None
  /\ waiting = FALSE /\ wake = None /\ inbox = << >>
  /\ lastDone = 0 /\ pingAt = None /\ pingDone = None
  /\ viol = {} /\ susp = FALSE /\ hist = << >>

\* ---- monitors (C10) --------------------------------------------------------------------------
\* D10 (open): with K < 5000 the client is silent until the PINGRESP arrives or RTT expires
D10Excuse(gap) == k < 5000 /\ (pingAt # None \/ pingDone = now) /\ gap <= RTT

SentAt(t, v) ==
  \* a client packet completes at time t
  IF k > 0 /\ t - lastDone > k /\ ~D10Excuse(t - lastDone) THEN v \cup {"gap"} ELSE v

\* ---- the client is polled (drive_packet / wait_for_progress up to the next await or return) ----------
\* A poll() that was suspended in with_deadline(read) (susp) looks at the transport first; a fresh
\* poll() runs service() first.  After a packet has been handled the same call goes round its loop
\* once more: service() again (timeout check, PINGREQ if due), then it returns.
\* The client-side state is handled as a record so that the steps compose.
Cl == [q |-> queued, live |-> live, np |-> nextPing, pt |-> pingTimeout, ld |-> lastDone, pa |-> pingAt, pd |-> pingDone,
       v |-> viol, did |-> "none"]

\* service(): keep-alive timeout, else PINGREQ if due or already queued (write + flush + complete_flush)
Service(x) ==
  IF x.pt # None /\ now >= x.pt THEN
     [x EXCEPT !.live = FALSE, !.np = None, !.pt = None, !.did = "timeout",
               !.q = IF "replay_queued_ping" \in Dev THEN @ ELSE FALSE,
               !.v = IF x.pa = None \/ now < x.pa + RTT THEN @ \cup {"early_timeout"} ELSE @]
  ELSE IF x.q \/ (x.pt = None /\ x.np # None /\ now >= x.np) THEN
     [x EXCEPT !.pt = (IF "timeout_at_queue_time" \in Dev /\ x.np # None THEN x.np ELSE now) + RTT,
               !.np = IF k = 0 THEN None ELSE now + SendInterval,
               !.pa = now, !.ld = now, !.did = "ping", !.q = FALSE,
               !.v = (IF k > 0 /\ now - x.ld > k /\ ~(k < 5000 /\ (x.pa # None \/ x.pd = now) /\ now - x.ld <= RTT)
                      THEN @ \cup {"gap"} ELSE @) \cup (IF k = 0 THEN {"ping_with_zero"} ELSE {})]
  ELSE x

\* one inbound packet is read and handled
Read(x, p) ==
  IF p = "PINGRESP"
  THEN [x EXCEPT !.pt = None, !.pa = None, !.pd = now,
                 !.np = IF "ping_rearm_on_pingresp" \in Dev /\ k > 0 THEN now + SendInterval ELSE @]
  ELSE x

Commit(x, what, p) ==
  /\ live' = x.live /\ nextPing' = x.np /\ pingTimeout' = x.pt /\ lastDone' = x.ld /\ pingAt' = x.pa
  /\ pingDone' = x.pd /\ viol' = x.v /\ queued' = x.q
  /\ waiting' = FALSE /\ wake' = None /\ susp' = FALSE
  /\ hist' = Log(what, p)

Poll ==
  /\ live
  /\ UNCHANGED << now, k, conn >>
  /\ IF susp /\ inbox # << >> THEN
       \* the suspended read completes; then once more round the loop
       LET y == Service(Read(Cl, Head(inbox))) IN
       /\ inbox' = Tail(inbox)
       /\ Commit(y, "read", << Head(inbox), y.did >>)
     ELSE
       LET x == Service(Cl) IN
       IF x.did # "none" THEN /\ UNCHANGED inbox /\ Commit(x, x.did, << >>)
       ELSE IF inbox # << >> THEN
            LET y == Service(Read(Cl, Head(inbox))) IN
            /\ inbox' = Tail(inbox)
            /\ Commit(y, "read", << Head(inbox), y.did >>)
       ELSE
         \* nothing to do: suspend in with_deadline(next_deadline, read)
         /\ waiting' = TRUE /\ wake' = Deadline /\ susp' = TRUE
         \* the client must not sleep past the keep-alive, nor past the round-trip bound
         /\ viol' = (IF k > 0 /\ (Deadline = None \/ Deadline > lastDone + k)
                        /\ ~(k < 5000 /\ pingAt # None /\ Deadline # None /\ Deadline <= pingAt + RTT)
                     THEN viol \cup {"sleeps_past_keepalive"} ELSE viol)
                    \cup (IF pingAt # None /\ (Deadline = None \/ Deadline > pingAt + RTT) THEN {"sleeps_past_rtt"} ELSE {})
         /\ UNCHANGED << live, nextPing, pingTimeout, inbox, lastDone, pingAt, pingDone, queued >>
         /\ hist' = Log("yield", Deadline)

\* ---- environment ----------------------------------------------------------------------------------
\* time passes; while the client sleeps with a future deadline time does not pass beyond it; a client
\* whose deadline is overdue is polled before time moves on (it never yields with work to do)
Tick ==
  /\ now + UNIT <= MaxT
  /\ waiting
  /\ wake = None \/ wake <= now \/ now + UNIT <= wake
  /\ now' = now + UNIT
  /\ waiting' = IF wake # None /\ (wake <= now \/ now + UNIT >= wake) THEN FALSE ELSE waiting
  /\ UNCHANGED << k, conn, queued, live, nextPing, pingTimeout, wake, inbox, lastDone, pingAt, pingDone, viol, susp >>
  /\ hist' = Log("adv", now + UNIT)

\* the broker answers an outstanding PINGREQ (any time), or sends something else
Arrive(p) ==
  /\ live /\ Len(inbox) < 1
  /\ p = "PINGRESP" => pingAt # None
  /\ inbox' = Append(inbox, p)
  /\ waiting' = FALSE
  /\ UNCHANGED << now, k, conn, queued, live, nextPing, pingTimeout, wake, lastDone, pingAt, pingDone, viol, susp >>
  /\ hist' = Log("b", p)

\* the application publishes at QoS 0 between polls (note_outbound_activity)
Publish0 ==
  /\ live /\ waiting
  /\ ~queued                \* (a queued PINGREQ would be flushed by the publish first: not modelled)
  /\ nextPing' = IF k = 0 THEN None ELSE now + SendInterval
  /\ lastDone' = now
  /\ viol' = SentAt(now, viol)
  /\ waiting' = FALSE /\ wake' = None /\ susp' = FALSE      \* the pending poll() is dropped first
  /\ UNCHANGED << now, k, conn, queued, live, pingTimeout, inbox, pingAt, pingDone >>
  /\ hist' = Log("q0", << >>)

\* ... or tries to: the transport takes nothing of the packet (write returns Ok(0)), the call fails with the
\* write-zero error and nothing was sent -- the keep-alive timer is not restarted (deviation
\* "q0_stamp_before_write": it is, as if a packet had gone out)
Publish0Zero ==
  /\ live /\ waiting /\ ~queued
  /\ nextPing' = IF "q0_stamp_before_write" \in Dev /\ k # 0 THEN now + SendInterval ELSE nextPing
  /\ waiting' = FALSE /\ wake' = None /\ susp' = FALSE      \* the pending poll() is dropped first
  /\ UNCHANGED << now, k, conn, queued, live, pingTimeout, inbox, lastDone, pingAt, pingDone, viol >>
  /\ hist' = Log("q0zero", << >>)

\* ---- connections -----------------------------------------------------------------------------------
\* a poll finds the PINGREQ due, queues it, the transport does not take it, the application drops the poll
Stall ==
  /\ live /\ ~waiting /\ ~queued /\ conn < MaxConn
  /\ ~(pingTimeout # None /\ now >= pingTimeout)
  /\ pingTimeout = None /\ nextPing # None /\ now >= nextPing
  /\ (susp => inbox = << >>)
  /\ queued' = TRUE
  /\ susp' = FALSE /\ wake' = None
  /\ UNCHANGED << now, k, conn, live, nextPing, pingTimeout, waiting, inbox, lastDone, pingAt, pingDone, viol >>
  /\ hist' = Log("stall", << >>)

\* the connection ends (transport lost or handle dropped): handle_disconnect / the next connect()
Drop ==
  /\ live /\ conn < MaxConn
  /\ live' = FALSE /\ nextPing' = None /\ pingTimeout' = None /\ pingAt' = None
  /\ queued' = IF "replay_queued_ping" \in Dev THEN queued ELSE FALSE
  /\ inbox' = << >> /\ susp' = FALSE /\ wake' = None
  /\ waiting' = TRUE          \* time may pass while disconnected
  /\ UNCHANGED << now, k, conn, lastDone, pingDone, viol >>
  /\ hist' = Log("drop", << >>)

\* connect() succeeds: the CONNACK's Server Keep Alive gives the effective keep-alive k2
Connect(k2) ==
  /\ ~live /\ conn < MaxConn
  /\ live' = TRUE /\ k' = k2 /\ conn' = conn + 1
  /\ nextPing' = IF k2 = 0 THEN None ELSE now + SendIntervalOf(k2)
  /\ pingTimeout' = None /\ pingAt' = None /\ pingDone' = None
  /\ lastDone' = now
  /\ waiting' = FALSE /\ wake' = None /\ susp' = FALSE /\ inbox' = << >>
  /\ UNCHANGED << now, queued, viol >>
  /\ hist' = Log("conn", k2)

Next == (~waiting /\ Poll) \/ Tick \/ Arrive("PINGRESP") \/ Arrive("OTHER") \/ Publish0 \/ Publish0Zero
        \/ Stall \/ Drop \/ (\E k2 \in Ks : Connect(k2))

Spec == Init /\ [][Next]_vars

\* ---- properties ------------------------------------------------------------------------------------
Inv_C10 == viol = {}
\* the client is never suspended without a timer while the keep-alive is on
Inv_C10_timer == (live /\ waiting /\ k > 0) => wake # None
\* an unanswered PINGREQ ends the wait at the round-trip bound: the client cannot be past it and asleep
Inv_C10_detect == (live /\ pingAt # None /\ waiting) => now < pingAt + RTT + UNIT
\* keep-alive zero sends no pings
Inv_C10_zero == (live /\ k = 0) => (pingAt = None /\ pingTimeout = None)
\* a PINGREQ never waits in the queue of a connection other than the one it was queued for
Inv_C10_queue == queued => live
=============================================================================
