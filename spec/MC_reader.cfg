SPECIFICATION Spec
CONSTANTS
  RX = 12
  Dev = {}
  Record = FALSE
  Streams <- StreamSet
INVARIANTS Inv_C14_in Inv_C15r Inv_C15r_done Inv_C12r
CHECK_DEADLOCK FALSE
