SPECIFICATION Spec
CONSTANT OpenKF = {"D2", "D3", "D5b", "D9b", "D10", "D11c", "D14", "D15"}
INVARIANT Report
INVARIANT Done
CHECK_DEADLOCK FALSE
