SPECIFICATION Spec
CONSTANT OpenKF = {}
INVARIANT Report
INVARIANT Done
CHECK_DEADLOCK FALSE
