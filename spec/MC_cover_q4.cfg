SPECIFICATION Spec
CONSTANTS
  MaxOps = 2
  MaxConns = 1
  IdMax = 60
  Cap = 8
  CtlCap = 8
  RMs = {2}
  MaxIn = 0
  MaxFail = 1
  MaxQ0 = 1
  Kinds = {"SUB", "UNS"}
  Parts = {FALSE}
  MaxCancel = 1
  MaxFault = 0
  Zeros = FALSE
  Dev = {}
  Record = FALSE
INVARIANTS
  Inv_C01 Inv_C02 Inv_C03 Inv_C05 Inv_C06 Inv_C07 Inv_C11 Inv_C12 Inv_C16 Inv_C18 Inv_Caps
CHECK_DEADLOCK FALSE
