SPECIFICATION Spec
CONSTANTS
  K = 5000
  UNIT = 250
  MaxT = 22000
  Dev = {}
  Record = FALSE
INVARIANTS Inv_C10 Inv_C10_timer Inv_C10_detect Inv_C10_zero
CHECK_DEADLOCK FALSE
