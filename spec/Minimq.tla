------------------------------- MODULE Minimq -------------------------------
(***************************************************************************)
(* The minimq client as an await-point automaton, with its environment.    *)
(*                                                                          *)
(* minimq is sequential: between two `await` points the client code is a    *)
(* deterministic function of its state.  Every step of this specification   *)
(* is therefore ONE DECISION OF THE ENVIRONMENT -- the application calls an   *)
(* API function, a pending transport write accepts some bytes, a flush or    *)
(* read completes or fails, the future is dropped (cancellation), the        *)
(* handle is dropped, the broker emits a packet -- followed by the client's   *)
(* deterministic reaction up to its next await point or its return           *)
(* (operators Eng, Handle, ConnAckIn, ... mirror src/mqtt_client/outbound.rs,  *)
(* session/{drive,operations,inbound,handshake}.rs block by block).          *)
(*                                                                          *)
(* Granularity: a packet is L = 2 units long: a transport write accepts       *)
(* either "part" (some but not all remaining bytes: w = 1) or "rest".  Bytes,  *)
(* lengths and the transmit arena are the business of MqttCodec / Arena;      *)
(* time and keep-alive of Timers.  Identifiers live in 1..IdMax so that the    *)
(* 16-bit wrap happens inside the bounded search.                             *)
(*                                                                          *)
(* Dev: named deviations.  The default model is the code AS BUILT (with the   *)
(* repairs committed as "fix:"); a deviation name in Dev re-enables one        *)
(* repaired defect (to show the properties catch it) -- the open findings D2    *)
(* and D5b are part of the as-built behaviour and the invariants say exactly   *)
(* which failures they excuse.                                                *)
(***************************************************************************)
EXTENDS Naturals, Sequences, FiniteSets, TLC

CONSTANTS MaxOps,      \* identifier-allocating requests (publish q>0, subscribe, unsubscribe)
          MaxConns,    \* transports handed to connect()
          IdMax,       \* packet identifiers are 1..IdMax
          Cap,         \* capacity of retained / release lists (8 in the code)
          CtlCap,      \* capacity of the pending-control list (8 in the code)
          RMs,         \* Receive Maximum values a CONNACK may carry (the client clamps them to Cap)
          MaxIn,       \* broker-initiated publishes
          MaxFail,     \* acknowledgements with a failure code + stale acknowledgements
          MaxQ0,       \* QoS 0 publishes
          Kinds,       \* kinds of identifier-allocating requests explored ("P1", "P2", "SUB", "UNS")
          Parts,       \* {TRUE, FALSE}: transport writes may be partial; {FALSE}: always complete
          MaxCancel,   \* dropped futures
          MaxFault,    \* transport faults
          Zeros,       \* TRUE: a write may take nothing (Ok(0)) where no packet is half-written -- counted as a fault
          Dev,         \* enabled deviations
          Record       \* TRUE: keep the history of decisions (behaviour generation)

VARIABLES c,    \* client: durable session + per-connection runtime + continuation
          n,    \* transport: wire monitor, packets in flight to the client
          b,    \* broker
          o,    \* observer bookkeeping (operations, truth about them) -- no influence on c
          hist  \* decisions taken so far (only when Record)

vars == << c, n, b, o, hist >>

None == [k |-> "none"]
Idle == [t |-> "idle"]

---------------------------------------------------------------------------
\* generic helpers

First(s, P(_)) == LET I == {i \in 1..Len(s) : P(s[i])} IN
                  IF I = {} THEN 0 ELSE CHOOSE i \in I : \A j \in I : i <= j
Upd(s, i, e) == [s EXCEPT ![i] = e]
Remove(s, i) == SubSeq(s, 1, i - 1) \o SubSeq(s, i + 1, Len(s))
SwapRemove(s, i) == IF i = Len(s) THEN SubSeq(s, 1, Len(s) - 1)
                    ELSE SubSeq(Upd(s, i, s[Len(s)]), 1, Len(s) - 1)
Range(s) == {s[i] : i \in 1..Len(s)}
Min(a, b2) == IF a < b2 THEN a ELSE b2
Sat(a) == IF a < 0 THEN 0 ELSE a

---------------------------------------------------------------------------
\* Outbound (src/mqtt_client/outbound.rs)

InProg(e) == (e.st = "W" /\ e.w > 0) \/ e.st = "F"
Fresh(e)  == e.st = "W" /\ e.w = 0

Pick(cl, P(_)) ==
  LET x == First(cl.ctl, P)  r == First(cl.rel, P)  t == First(cl.ret, P) IN
  IF x # 0 THEN [k |-> "ctl", a |-> cl.ctl[x].a, id |-> cl.ctl[x].id, rc |-> cl.ctl[x].rc]
  ELSE IF r # 0 THEN [k |-> "rel", a |-> "PUBREL", id |-> cl.rel[r].id, rc |-> 0]
  ELSE IF t # 0 THEN [k |-> "ret", a |-> cl.ret[t].k, id |-> cl.ret[t].id, rc |-> 0]
  ELSE None

NextStep(cl) == LET a == Pick(cl, InProg) IN IF a # None THEN a ELSE Pick(cl, Fresh)
InProgressStep(cl) == Pick(cl, InProg)

\* the code finds an entry again by identity: first match
FindCtl(cl, s) == First(cl.ctl, LAMBDA e : e.a = s.a /\ e.id = s.id /\ e.rc = s.rc)
FindRel(cl, id) == First(cl.rel, LAMBDA e : e.id = id)
FindRet(cl, id) == First(cl.ret, LAMBDA e : e.id = id)

Entry(cl, s) == IF s.k = "ctl" THEN cl.ctl[FindCtl(cl, s)]
                ELSE IF s.k = "rel" THEN cl.rel[FindRel(cl, s.id)]
                ELSE cl.ret[FindRet(cl, s.id)]

\* what a step puts on the wire (packet identity seen by the wire monitor / broker)
What(cl, s) == IF s.k = "ret"
               THEN << s.a, s.id, cl.ret[FindRet(cl, s.id)].dup, cl.ret[FindRet(cl, s.id)].m >>
               ELSE << s.a, s.id, s.rc >>

SetState(cl, s, st, w) ==
  IF s.k = "ctl" THEN [cl EXCEPT !.ctl[FindCtl(cl, s)].st = st, !.ctl[FindCtl(cl, s)].w = w]
  ELSE IF s.k = "rel" THEN [cl EXCEPT !.rel[FindRel(cl, s.id)].st = st, !.rel[FindRel(cl, s.id)].w = w]
  ELSE [cl EXCEPT !.ret[FindRet(cl, s.id)].st = st, !.ret[FindRet(cl, s.id)].w = w]

\* complete_flush: control entries are removed, the others marked sent
FlushDone(cl, s) ==
  IF s.k = "ctl" THEN [cl EXCEPT !.ctl = Remove(@, FindCtl(cl, s))]
  ELSE SetState(cl, s, "S", 0)

Rearm(s) == [i \in 1..Len(s) |-> [s[i] EXCEPT !.st = "W", !.w = 0]]
ArmReplay(cl) ==
  [cl EXCEPT !.ret = [i \in 1..Len(cl.ret) |-> [cl.ret[i] EXCEPT !.st = "W", !.w = 0, !.dup = TRUE]],
             !.rel = Rearm(cl.rel), !.ctl = Rearm(cl.ctl)]

IsPubKind(k) == k \in {"P1", "P2"}
Unresolved(cl) == Cardinality({i \in 1..Len(cl.ret) : IsPubKind(cl.ret[i].k)}) + Len(cl.rel)

HandleDisconnect(cl) == [ArmReplay(cl) EXCEPT !.live = FALSE]

\* SessionData::next_packet_id
Succ(id) == IF id = IdMax THEN 1 ELSE id + 1
InUse(cl, id) == FindRet(cl, id) # 0 \/ FindRel(cl, id) # 0
RECURSIVE AllocFrom(_, _, _)
AllocFrom(cl, id, fuel) ==
  IF "id_no_inuse_check" \in Dev \/ ~InUse(cl, id) \/ fuel = 0 THEN id ELSE AllocFrom(cl, Succ(id), fuel - 1)
AllocId(cl) == AllocFrom(cl, cl.nid, IdMax)
AfterAlloc(cl) == [cl EXCEPT !.nid = Succ(AllocId(cl))]

---------------------------------------------------------------------------
\* Returning from an API call

Ret(cl, r) == [cl EXCEPT !.pc = Idle, !.last = r]
Ok(v) == [k |-> "ok", v |-> v]
Err(v) == [k |-> "err", v |-> v]

---------------------------------------------------------------------------
\* Operations (session/operations.rs) and the outbound engine loop (session/drive.rs)

RetainedFull(cl) == Len(cl.ret) >= Cap

RECURSIVE Eng(_, _)

\* enqueue block of publish / subscribe / unsubscribe, reached when flush_outbound found the
\* engine idle; returns the client after the block (either returned, or continuing the engine)
Enqueue(cl, op) ==
  IF op.nm = "pub" THEN
     LET id == AllocId(cl)  c1 == AfterAlloc(cl) IN
     IF RetainedFull(c1) THEN Ret(c1, Err("InflightExhausted"))
     ELSE IF c1.quota = 0 THEN Ret(c1, Err("NotReady"))
     ELSE Eng([c1 EXCEPT !.ret = Append(@, [id |-> id, k |-> op.k, st |-> "W", w |-> 0, dup |-> FALSE, m |-> op.m]),
                         !.quota = @ - 1],
              [op EXCEPT !.ph = "B", !.id = id])
  ELSE \* subscribe / unsubscribe: the slot check precedes the identifier allocation
     IF RetainedFull(cl) THEN Ret(cl, Err("InflightExhausted"))
     ELSE LET id == AllocId(cl)  c1 == AfterAlloc(cl) IN
          Eng([c1 EXCEPT !.ret = Append(@, [id |-> id, k |-> op.k, st |-> "W", w |-> 0, dup |-> FALSE, m |-> op.m])],
              [op EXCEPT !.ph = "B", !.id = id])

\* the engine has nothing left to do for this operation
EngIdle(cl, op) ==
  CASE op.nm \in {"pub", "sub"} /\ op.ph = "A" -> Enqueue(cl, op)
    [] op.nm \in {"pub", "sub"} /\ op.ph = "B" -> Ret(cl, [k |-> "ok", v |-> "op", h |-> [k |-> op.k, id |-> op.id, gen |-> cl.gen, m |-> op.m]])
    [] op.nm = "poll" -> IF op.adv THEN Ret(cl, Ok("none")) ELSE [cl EXCEPT !.pc = [t |-> "ar", op |-> op]]
    [] op.nm = "recv" -> [cl EXCEPT !.pc = [t |-> "ar", op |-> [op EXCEPT !.adv = FALSE]]]
    [] op.nm = "drive" -> Ret(cl, Ok("none"))
    [] op.nm = "disc" -> [cl EXCEPT !.pc = [t |-> "dw", w |-> 0, op |-> op]]
    [] op.nm = "q0" -> [cl EXCEPT !.pc = [t |-> "qw", w |-> 0, op |-> op]]
    [] OTHER -> Ret(cl, Err("bug"))

\* flush_outbound / drive_packet loop: run the engine up to its next await
Eng(cl, op) ==
  LET s == IF op.nm = "disc"
           THEN (IF "disconnect_no_drain" \in Dev THEN None ELSE InProgressStep(cl))
           ELSE NextStep(cl) IN
  IF s = None THEN EngIdle(cl, op)
  ELSE IF Entry(cl, s).st = "F" THEN [cl EXCEPT !.pc = [t |-> "af", op |-> op, s |-> s]]
  ELSE [cl EXCEPT !.pc = [t |-> "aw", op |-> op, s |-> s]]

\* the application calls an API function on a handle
CallOp(cl, op) ==
  IF ~cl.live THEN Ret(cl, IF op.nm = "disc" THEN Ok("none") ELSE Err("Disconnected"))
  ELSE Eng(cl, op)

---------------------------------------------------------------------------
\* handle_packet (session/inbound.rs).  Returns the client and the outcome:
\*   "msg" deliverable publish, "none" handled silently, or an error name.

Inc(cl) ==
  IF "quota_uncapped" \in Dev THEN Min(cl.quota + 1, cl.maxq)
  ELSE Min(cl.quota + 1, Sat(cl.maxq - Unresolved(cl)))

QueueCtl(cl, a, id, rc) ==
  IF Len(cl.ctl) >= CtlCap THEN << cl, "InflightExhausted" >>
  ELSE << [cl EXCEPT !.ctl = Append(@, [a |-> a, id |-> id, rc |-> rc, st |-> "W", w |-> 0])], "none" >>

Handle(cl, p) ==
  CASE p.t \in {"PUBACK", "SUBACK", "UNSUBACK"} ->
         LET i == FindRet(cl, p.id) IN
         IF i = 0 THEN << cl, "none" >>
         ELSE LET c1 == [cl EXCEPT !.ret = Remove(@, i)]
                  c2 == IF p.t = "PUBACK" THEN [c1 EXCEPT !.quota = Inc(c1)] ELSE c1
              IN << c2, IF p.rc >= 128 THEN "Rejected" ELSE "none" >>
    [] p.t = "PUBREC" ->
         LET i == FindRet(cl, p.id) IN
         IF i # 0 THEN
            LET c1 == [cl EXCEPT !.ret = Remove(@, i)] IN
            IF p.rc >= 128 THEN << [c1 EXCEPT !.quota = Inc(c1)], "Rejected" >>
            ELSE LET c2 == IF "quota_on_pubrec" \in Dev THEN [c1 EXCEPT !.quota = Min(c1.quota + 1, c1.maxq)] ELSE c1 IN
                 IF Len(c2.rel) >= Cap THEN << c2, "InflightExhausted" >>
                 ELSE << [c2 EXCEPT !.rel = Append(@, [id |-> p.id, st |-> "W", w |-> 0])], "none" >>
         ELSE IF FindRel(cl, p.id) # 0 THEN << cl, IF p.rc >= 128 THEN "Rejected" ELSE "none" >>
         ELSE << cl, "none" >>
    [] p.t = "PUBCOMP" ->
         LET i == FindRel(cl, p.id) IN
         IF i = 0 THEN << cl, "none" >>
         ELSE LET c1 == [cl EXCEPT !.rel = IF "release_swap_remove" \in Dev THEN SwapRemove(@, i) ELSE Remove(@, i)]
                  c2 == IF "quota_on_pubrec" \in Dev THEN c1 ELSE [c1 EXCEPT !.quota = Inc(c1)]
              IN << c2, IF p.rc >= 128 THEN "Rejected" ELSE "none" >>
    [] p.t = "PUBREL" ->
         LET known == p.id \in cl.sids
             r == QueueCtl([cl EXCEPT !.sids = @ \ {p.id}], "PUBCOMP", p.id, IF known THEN 0 ELSE 146)
         IN r
    [] p.t = "PUBLISH" ->
         IF p.q = 0 THEN << cl, "msg" >>
         ELSE IF p.q = 1 THEN
              LET r == QueueCtl(cl, "PUBACK", p.id, IF p.id \in cl.sids THEN 145 ELSE 0) IN
              IF r[2] = "none" THEN << r[1], "msg" >> ELSE r
         ELSE LET dup == p.id \in cl.sids
                  full == ~dup /\ Cardinality(cl.sids) >= Cap
                  c1 == IF dup \/ full THEN cl ELSE [cl EXCEPT !.sids = @ \cup {p.id}]
                  r == QueueCtl(c1, "PUBREC", p.id, IF full THEN 147 ELSE 0)
              IN \* the identifier is recorded only once the PUBREC is queued (defect D17, repaired;
                 \* deviation "sid_before_queue" is the code as it was)
                 IF r[2] # "none" THEN (IF "sid_before_queue" \in Dev THEN r ELSE << cl, r[2] >>)
                 ELSE IF dup \/ full THEN r ELSE << r[1], "msg" >>
    [] p.t = "DISCONNECT" -> << cl, "Disconnected" >>
    [] p.t = "PINGRESP" -> << cl, "none" >>
    [] OTHER -> << cl, "InvalidPacket" >>            \* CONNACK outside connect, garbage

\* process_received_packet + continuation of drive_packet for poll / recv
AfterPacket(cl, op, p) ==
  LET r == Handle(cl, p)  c1 == r[1]  out == r[2] IN
  IF out = "msg" THEN Ret(c1, [k |-> "ok", v |-> "msg", p |-> p])
  ELSE IF out = "none" THEN Eng(c1, [op EXCEPT !.adv = TRUE])
  ELSE IF out \in {"Disconnected", "InvalidPacket"} THEN Ret(HandleDisconnect(c1), Err(out))
  ELSE Ret(c1, [k |-> "err", v |-> out, code |-> p.rc])

---------------------------------------------------------------------------
\* connect (session/handshake.rs)

StartConnect(cl) ==
  [ArmReplay(cl) EXCEPT !.live = FALSE, !.up = FALSE, !.pc = [t |-> "cw", w |-> 0]]

ConnAckIn(cl, p) ==
  IF p.t = "DISCONNECT" THEN Ret(HandleDisconnect(cl), Err("Disconnected"))
  ELSE IF p.t # "CONNACK" THEN Ret(HandleDisconnect(cl), Err("InvalidPacket"))
  ELSE IF p.rc >= 128 THEN Ret(cl, [k |-> "err", v |-> "Rejected", code |-> p.rc])
  ELSE
  LET bad == "bad" \in DOMAIN p /\ p.bad
      \* SessionData::reset() comes right after the session-present flag has been read, before the
      \* properties are validated
      c1 == IF p.sp \/ (bad /\ "reset_after_validation" \in Dev) THEN cl
            ELSE [cl EXCEPT !.sp = FALSE, !.gen = @ + 1, !.nid = 1, !.ret = << >>, !.rel = << >>,
                            !.ctl = << >>, !.sids = {}]
      \* the broker's Receive Maximum counts only up to the client's own capacity (max.min(local_quota));
      \* deviation "quota_unclamped_init": the starting quota takes the broker's value as it is
      lim == Min(p.rm, Cap)
      q == IF "quota_reset_on_resume" \in Dev THEN lim
           ELSE IF "quota_unclamped_init" \in Dev THEN Sat(p.rm - Unresolved(c1))
           ELSE Sat(lim - Unresolved(c1))
  IN
  \* a success CONNACK whose properties are refused (Receive Maximum 0, Maximum QoS 3, over-long
  \* assigned identifier): the connection fails, nothing of the new connection is activated
  IF bad THEN Ret(HandleDisconnect(c1), Err("InvalidPacket")) ELSE
  Ret([c1 EXCEPT !.sp = TRUE, !.quota = q, !.maxq = lim, !.live = TRUE, !.up = TRUE,
                    !.event = IF p.sp THEN "Reconnected" ELSE "Connected"],
         Ok(IF p.sp THEN "Reconnected" ELSE "Connected"))

---------------------------------------------------------------------------
\* observer bookkeeping (truth about operations; never read by the client)

\* a complete packet of operation m left the client
Sent(oo, what) ==
  IF what[1] \in {"P1", "P2", "SUB", "UNS"} THEN
     LET m == what[4]  r == oo.ops[m]  cnt == IF r.sc = n.conn THEN r.cnt + 1 ELSE 1 IN
     [oo EXCEPT !.ops[m].id = what[2], !.ops[m].acc = TRUE, !.ops[m].sc = n.conn, !.ops[m].cnt = cnt,
                !.twice = @ \/ cnt > 1,
                !.afterack = @ \/ r.ph # "new",
                !.wrongdup = @ \/ (what[1] \in {"P1", "P2"} /\ what[3] # (r.conn # n.conn)),
                !.idclash = @ \/ (\E j \in 1..Len(oo.ops) : j # m /\ oo.ops[j].acc /\ oo.ops[j].id = what[2]
                                     /\ oo.ops[j].epoch = oo.epoch /\ oo.ops[j].ph # "done"),
                !.stale = @ \/ r.epoch # oo.epoch,
                !.order = @ \/ (\E j \in 1..Len(oo.ops) : j > m /\ oo.ops[j].k \in {"P1", "P2"} /\ r.k \in {"P1", "P2"}
                                   /\ oo.ops[j].sc = n.conn /\ oo.ops[j].epoch = oo.epoch),
                !.newfirst = @ \/ (r.conn = n.conn /\
                                   \E j \in 1..Len(oo.ops) : oo.ops[j].acc /\ oo.ops[j].epoch = oo.epoch
                                       /\ oo.ops[j].ph # "done" /\ oo.ops[j].conn < n.conn
                                       /\ (IF oo.ops[j].ph = "rec" THEN oo.ops[j].rsc # n.conn ELSE oo.ops[j].sc # n.conn))]
  ELSE IF what[1] = "PUBREL" THEN
     LET M == {m \in 1..Len(oo.ops) : oo.ops[m].k = "P2" /\ oo.ops[m].id = what[2] /\ oo.ops[m].acc
                                      /\ oo.ops[m].epoch = oo.epoch /\ oo.ops[m].ph = "rec"} IN
     IF M = {} THEN [oo EXCEPT !.relbad = TRUE]
     ELSE LET m == CHOOSE m \in M : TRUE  r == oo.ops[m]  cnt == IF r.rsc = n.conn THEN r.rcnt + 1 ELSE 1 IN
          [oo EXCEPT !.ops[m].rsc = n.conn, !.ops[m].rcnt = cnt, !.twice = @ \/ cnt > 1,
                     !.relorder = @ \/ (\E j \in 1..Len(oo.ops) : oo.ops[j].k = "P2" /\ oo.ops[j].rsc = n.conn
                                           /\ oo.ops[j].epoch = oo.epoch /\ oo.ops[j].recseq > r.recseq)]
  ELSE oo

\* the client consumed an acknowledgement
Consumed(oo, p) ==
  LET kinds == CASE p.t = "PUBACK" -> {"P1"} [] p.t \in {"PUBREC", "PUBCOMP"} -> {"P2"}
                 [] p.t = "SUBACK" -> {"SUB"} [] p.t = "UNSUBACK" -> {"UNS"} [] OTHER -> {}
      M == {m \in 1..Len(oo.ops) : oo.ops[m].k \in kinds /\ oo.ops[m].id = p.id /\ oo.ops[m].acc
                                   /\ oo.ops[m].epoch = oo.epoch /\ oo.ops[m].ph # "done"} IN
  IF M = {} THEN oo
  ELSE LET m == CHOOSE m \in M : TRUE  r == oo.ops[m] IN
       IF p.t = "PUBREC" THEN
          IF r.ph = "rec" THEN oo
          ELSE IF p.rc >= 128 THEN [oo EXCEPT !.ops[m].ph = "done"]
          ELSE [oo EXCEPT !.ops[m].ph = "rec", !.ops[m].recseq = oo.recn + 1, !.recn = @ + 1]
       ELSE IF p.t = "PUBCOMP" /\ r.ph # "rec" THEN oo
       ELSE [oo EXCEPT !.ops[m].ph = "done"]


\* inbound QoS 2: identifiers whose message was handed to the application and not yet released by PUBREL
Got2(oo, p, cl2) ==
  IF p.t = "PUBLISH" /\ p.q = 2 /\ cl2.pc = Idle /\ cl2.last.k = "ok" /\ cl2.last.v = "msg"
  THEN [oo EXCEPT !.got2 = @ \cup {p.id}]
  ELSE IF p.t = "PUBREL" THEN [oo EXCEPT !.got2 = @ \ {p.id}]
  ELSE oo

\* after every step: operations whose packet sits in the retained list are accepted (exactly the
\* enqueue block of publish/subscribe/unsubscribe was executed); a returned handle is remembered
Track(oo, cl) ==
  LET o1 == [oo EXCEPT !.ops = [m \in 1..Len(oo.ops) |->
                 LET I == {i \in 1..Len(cl.ret) : cl.ret[i].m = m} IN
                 IF I = {} \/ oo.ops[m].epoch # oo.epoch THEN oo.ops[m]
                 ELSE [oo.ops[m] EXCEPT !.acc = TRUE, !.id = cl.ret[CHOOSE i \in I : TRUE].id]]]
  IN IF cl.pc = Idle /\ cl.last.k = "ok" /\ cl.last.v = "op"
     THEN [o1 EXCEPT !.ops[cl.last.h.m].h = TRUE] ELSE o1

---------------------------------------------------------------------------
\* the environment: transport, broker, application

\* wire monitor (C01): a chunk of packet `what` at offset `off` (0 or 1), completing or not
Wire(nn, what, off, complete) ==
  LET broken == (off = 0 /\ nn.open # << >>) \/ (off > 0 /\ nn.open # << what >>) \/ nn.disc IN
  \* known finding D2: after a disconnect() was dropped with part (or all) of its DISCONNECT on the
  \* wire, the damage is attributed to it (badkf), anything else is a violation (bad)
  [nn EXCEPT !.bad = @ \/ (broken /\ ~nn.dcan),
             !.badkf = @ \/ (broken /\ nn.dcan),
             !.open = IF complete THEN << >> ELSE << what >>]

\* the broker receives a complete client packet
BrokerGets(bb, what) ==
  CASE what[1] \in {"P1", "P2"} ->
         [bb EXCEPT !.un = @ \cup {what[2]}, !.got = @ \cup {<< what[1], what[2] >>},
                    !.over = @ \/ (Cardinality(bb.un \cup {what[2]}) > bb.rm /\ ~what[3]),
                    !.overreplay = @ \/ (Cardinality(bb.un \cup {what[2]}) > bb.rm /\ what[3])]
    [] what[1] \in {"SUB", "UNS"} -> [bb EXCEPT !.got = @ \cup {<< what[1], what[2] >>}]
    [] what[1] = "PUBREL" -> [bb EXCEPT !.got = @ \cup {<< "PUBREL", what[2] >>}]
    [] what[1] = "PUBACK" -> [bb EXCEPT !.inq = {x \in @ : ~(x.id = what[2] /\ x.q = 1)}]
    [] what[1] = "PUBREC" -> [bb EXCEPT !.inq = {IF x.id = what[2] /\ x.q = 2 /\ x.ph = "pub"
                                                 THEN [x EXCEPT !.ph = "rec"] ELSE x : x \in @}]
    [] what[1] = "PUBCOMP" -> [bb EXCEPT !.inq = {x \in @ : ~(x.id = what[2] /\ x.q = 2 /\ x.ph = "rel")}]
    [] OTHER -> bb

\* projection of the client state compared with the real session after every call boundary
Proj(cl) ==
  [pc |-> cl.pc.t, last |-> cl.last, live |-> cl.live, up |-> cl.up, sp |-> cl.sp, gen |-> cl.gen,
   nid |-> cl.nid, quota |-> cl.quota, maxq |-> cl.maxq, sids |-> cl.sids,
   ret |-> [i \in 1..Len(cl.ret) |-> << cl.ret[i].id, cl.ret[i].k, cl.ret[i].st, cl.ret[i].w, cl.ret[i].dup >>],
   rel |-> [i \in 1..Len(cl.rel) |-> << cl.rel[i].id, cl.rel[i].st, cl.rel[i].w >>],
   ctl |-> [i \in 1..Len(cl.ctl) |-> << cl.ctl[i].a, cl.ctl[i].id, cl.ctl[i].rc, cl.ctl[i].st, cl.ctl[i].w >>]]
\* client steps (c' is determined before hist' in every action) and pure environment steps
Log(a, p) == IF Record THEN Append(hist, [a |-> a, p |-> p, s |-> Proj(c')]) ELSE hist
LogB(a, p) == IF Record THEN Append(hist, [a |-> a, p |-> p, s |-> Proj(c)]) ELSE hist

\* ---- application ---------------------------------------------------------

NoHandle == ~c.up /\ c.pc = Idle

AppConnect ==
  /\ NoHandle /\ n.conn < MaxConns
  /\ c' = StartConnect(c)
  /\ n' = [n EXCEPT !.conn = @ + 1, !.open = << >>, !.b2c = << >>, !.disc = FALSE, !.dcan = FALSE,
                    !.clean = ~c.sp]
  /\ b' = [b EXCEPT !.un = {}, !.got = {}, !.rm = 0]
  /\ hist' = Log("conn", << >>)
  /\ UNCHANGED o

OpsUsed == Len(o.ops)

AppCall(op) ==
  /\ c.up /\ c.pc = Idle
  /\ c' = CallOp(c, op)
  /\ hist' = Log("call", op)
  /\ o' = IF op.nm = "q0" THEN Track([o EXCEPT !.q0 = @ + 1], c') ELSE
          IF op.nm \in {"pub", "sub"} /\ c.live
          THEN Track([o EXCEPT !.ops = Append(@, [k |-> op.k, gen |-> c.gen, epoch |-> o.epoch, conn |-> n.conn,
                                             id |-> 0, ph |-> "new", acc |-> FALSE, h |-> FALSE,
                                             sc |-> 0, cnt |-> 0, rsc |-> 0, rcnt |-> 0, recseq |-> 0])], c')
          ELSE Track(o, c')
  /\ UNCHANGED << n, b >>

NewOp(nm, kind) == [nm |-> nm, k |-> kind, m |-> OpsUsed + 1, ph |-> "A", id |-> 0, adv |-> FALSE]

AppPublish(k) == OpsUsed < MaxOps /\ AppCall(NewOp("pub", k))
AppSubscribe(k) == OpsUsed < MaxOps /\ AppCall(NewOp("sub", k))
AppPoll == AppCall([nm |-> "poll", k |-> "", m |-> 0, ph |-> "", id |-> 0, adv |-> FALSE])
AppRecv == AppCall([nm |-> "recv", k |-> "", m |-> 0, ph |-> "", id |-> 0, adv |-> FALSE])
AppDrive == AppCall([nm |-> "drive", k |-> "", m |-> 0, ph |-> "", id |-> 0, adv |-> FALSE])
AppPublish0 == o.q0 < MaxQ0 /\ AppCall([nm |-> "q0", k |-> "P0", m |-> 100 + o.q0, ph |-> "A", id |-> 0, adv |-> FALSE])
AppDisconnect == AppCall([nm |-> "disc", k |-> "", m |-> 0, ph |-> "", id |-> 0, adv |-> FALSE])

\* dropping the pending future (any await point); connect: the transport goes with it
Cancel ==
  /\ c.pc # Idle /\ n.cancels < MaxCancel
  \* QoS 0 publishes are documented as not cancel-safe: the application never drops them
  /\ c.pc.t \notin {"qw", "qf"} /\ (c.pc.t \in {"aw", "af"} => c.pc.op.nm # "q0")
  /\ c' = [c EXCEPT !.pc = Idle, !.last = [k |-> "cancel"]]
  /\ n' = [n EXCEPT !.dcan = @ \/ (c.pc.t = "dw" /\ c.pc.w > 0) \/ c.pc.t = "df", !.cancels = @ + 1]
  /\ hist' = Log("cancel", << >>)
  /\ o' = Track(o, c')
  /\ UNCHANGED b

DropHandle ==
  /\ c.up /\ c.pc = Idle
  /\ c' = [c EXCEPT !.up = FALSE]
  /\ hist' = Log("drop", << >>)
  /\ o' = Track(o, c')
  /\ UNCHANGED << n, b >>

\* ---- transport -----------------------------------------------------------

\* a pending engine write accepts part of / the rest of the packet
IoWrite(part) ==
  /\ c.pc.t = "aw"
  /\ LET s == c.pc.s  e == Entry(c, s)  what == What(c, s) IN
     /\ part => e.w = 0
     /\ n' = Wire(n, what, e.w, ~part)
     /\ b' = IF part THEN b ELSE BrokerGets(b, what)
     /\ c' = IF part THEN Eng(SetState(c, s, "W", 1), c.pc.op)
             ELSE [SetState(c, s, "F", 0) EXCEPT !.pc = [t |-> "af", op |-> c.pc.op, s |-> s]]
     /\ o' = Track(IF part THEN o ELSE Sent(o, what), c')
  /\ hist' = Log("w", part)

IoFlush ==
  /\ c.pc.t = "af"
  /\ c' = Eng(FlushDone(c, c.pc.s), IF c.pc.op.nm \in {"poll", "recv"} THEN [c.pc.op EXCEPT !.adv = TRUE] ELSE c.pc.op)
  /\ hist' = Log("f", << >>)
  /\ o' = Track(o, c')
  /\ UNCHANGED << n, b >>

\* write or flush error on an engine step: the handle dies
IoFail ==
  /\ c.pc.t \in {"aw", "af"} /\ n.faults < MaxFault
  /\ c' = Ret(HandleDisconnect(c), Err("Transport"))
  /\ hist' = Log(IF c.pc.t = "aw" THEN "werr" ELSE "ferr", << >>)
  /\ o' = Track(o, c')
  /\ n' = [n EXCEPT !.faults = @ + 1]
  /\ UNCHANGED b

\* The transport takes nothing of a packet that has not been started (write returns Ok(0)): the call returns the
\* write-zero error, the handle stays up and the packet stays queued, untouched (drive.rs write_current).
IoZero ==
  /\ Zeros /\ c.pc.t = "aw" /\ n.faults < MaxFault
  /\ Entry(c, c.pc.s).w = 0
  /\ c' = Ret(c, Err("WriteZero"))
  /\ hist' = Log("wzero", << >>)
  /\ o' = Track(o, c')
  /\ n' = [n EXCEPT !.faults = @ + 1]
  /\ UNCHANGED b

\* Environment assumption: an acknowledgement names an identifier that is either not in use or in
\* use by an operation of the matching kind; a stale / duplicate acknowledgement is not overtaken
\* by the reuse of its identifier (that needs 65535 allocations in between, here only IdMax).
AckConsistent(p) ==
  IF "stale" \in DOMAIN p THEN ~InUse(c, p.id)
  ELSE IF p.t \in {"PUBACK", "PUBREC", "SUBACK", "UNSUBACK"}
  THEN LET i == FindRet(c, p.id) IN
       IF i = 0 THEN TRUE
       ELSE c.ret[i].k = (CASE p.t = "PUBACK" -> "P1" [] p.t = "PUBREC" -> "P2"
                          [] p.t = "SUBACK" -> "SUB" [] OTHER -> "UNS")
  ELSE TRUE

LoseInconsistent ==
  /\ n.b2c # << >> /\ ~AckConsistent(Head(n.b2c))
  /\ n' = [n EXCEPT !.b2c = Tail(@)]
  /\ hist' = LogB("lose", << >>)
  /\ UNCHANGED << c, b, o >>

\* poll / recv: the next packet from the broker has been read completely
IoRead(p) ==
  /\ c.pc.t = "ar" /\ n.b2c # << >> /\ p = Head(n.b2c) /\ AckConsistent(p)
  /\ /\ c' = AfterPacket(c, c.pc.op, p)
     /\ n' = [n EXCEPT !.b2c = Tail(@)]
     /\ o' = Track(Got2(Consumed(o, p), p, c'), c')
     /\ hist' = Log("r", p)
  /\ UNCHANGED b

IoReadFail(kind) ==
  /\ c.pc.t \in {"ar", "cr"} /\ n.faults < MaxFault
  /\ c' = Ret(HandleDisconnect(c), Err(IF kind = "eof" THEN "Disconnected" ELSE "Transport"))
  /\ hist' = Log(kind, << >>)
  /\ o' = Track(o, c')
  /\ n' = [n EXCEPT !.faults = @ + 1]
  /\ UNCHANGED b

\* connect: CONNECT write_all + flush, then one packet
ConnWrite(part) ==
  /\ c.pc.t = "cw"
  /\ part => c.pc.w = 0
  /\ n' = Wire(n, << "CONNECT", n.conn >>, c.pc.w, ~part)
  /\ c' = IF part THEN [c EXCEPT !.pc.w = 1] ELSE [c EXCEPT !.pc = [t |-> "cf"]]
  /\ hist' = Log("w", part)
  /\ o' = Track(o, c')
  /\ UNCHANGED b

ConnFlush ==
  /\ c.pc.t = "cf"
  /\ c' = [c EXCEPT !.pc = [t |-> "cr"]]
  /\ hist' = Log("f", << >>)
  /\ o' = Track(o, c')
  /\ UNCHANGED << n, b >>

ConnFail ==
  /\ c.pc.t \in {"cw", "cf"} /\ n.faults < MaxFault
  /\ c' = Ret(c, Err("Transport"))
  /\ hist' = Log(IF c.pc.t = "cw" THEN "werr" ELSE "ferr", << >>)
  /\ o' = Track(o, c')
  /\ n' = [n EXCEPT !.faults = @ + 1]
  /\ UNCHANGED b

\* the broker's answer to CONNECT: session-present only if it has the session and was not asked
\* for a clean start
ConnAck(sp, rm) ==
  /\ c.pc.t = "cr"
  /\ sp => (b.sess /\ ~n.clean)
  /\ LET p == [t |-> "CONNACK", sp |-> sp, rc |-> 0, rm |-> rm] IN
     /\ c' = ConnAckIn(c, p)
     /\ hist' = Log("r", p)
     /\ b' = [b EXCEPT !.sess = TRUE, !.rm = rm,
                       \* exchanges past PUBREC stay unresolved on a resumed connection
                       !.un = IF sp THEN b.q2 ELSE {},
                       !.q2 = IF sp THEN @ ELSE {}, !.inq = IF sp THEN @ ELSE {},
                       !.over = FALSE, !.overreplay = FALSE]
     /\ o' = Track(IF sp THEN o ELSE [o EXCEPT !.epoch = @ + 1, !.got2 = {}], c')
  /\ UNCHANGED n

\* ... or a success CONNACK that the client must refuse for its properties; for the broker the session
\* exists from now on
ConnAckBad(sp) ==
  /\ c.pc.t = "cr" /\ n.faults < MaxFault
  /\ sp => (b.sess /\ ~n.clean)
  /\ LET p == [t |-> "CONNACK", sp |-> sp, rc |-> 0, rm |-> 0, bad |-> TRUE] IN
     /\ c' = ConnAckIn(c, p)
     /\ hist' = Log("r", p)
     /\ b' = [b EXCEPT !.sess = TRUE,
                       !.un = IF sp THEN b.q2 ELSE {},
                       !.q2 = IF sp THEN @ ELSE {}, !.inq = IF sp THEN @ ELSE {},
                       !.over = FALSE, !.overreplay = FALSE]
     /\ o' = Track(IF sp THEN o ELSE [o EXCEPT !.epoch = @ + 1, !.got2 = {}], c')
  /\ n' = [n EXCEPT !.faults = @ + 1]

ConnOther(p) ==
  /\ c.pc.t = "cr"
  /\ c' = ConnAckIn(c, p)
  /\ hist' = Log("r", p)
  /\ o' = Track(o, c')
  /\ UNCHANGED << n, b >>

\* disconnect: write_all + flush from a stack buffer, then handle_disconnect
DiscWrite(part) ==
  /\ c.pc.t = "dw"
  /\ part => c.pc.w = 0
  /\ n' = [Wire(n, << "DISCONNECT", n.conn >>, c.pc.w, ~part)
           EXCEPT !.disc = @ \/ ~part]
  /\ c' = IF part THEN [c EXCEPT !.pc.w = 1] ELSE [c EXCEPT !.pc = [t |-> "df", op |-> c.pc.op]]
  /\ hist' = Log("w", part)
  /\ o' = Track(o, c')
  /\ UNCHANGED b

DiscFlush(ok) ==
  /\ c.pc.t = "df" /\ (~ok => n.faults < MaxFault)
  /\ c' = Ret(HandleDisconnect(c), IF ok THEN Ok("none") ELSE Err("Transport"))
  /\ hist' = Log(IF ok THEN "f" ELSE "ferr", << >>)
  /\ o' = Track(o, c')
  /\ n' = IF ~ok THEN [n EXCEPT !.faults = @ + 1] ELSE n
  /\ UNCHANGED b

DiscWriteFail ==
  /\ c.pc.t = "dw" /\ n.faults < MaxFault
  /\ c' = Ret(HandleDisconnect(c), Err("Transport"))
  /\ hist' = Log("werr", << >>)
  /\ o' = Track(o, c')
  /\ n' = [n EXCEPT !.faults = @ + 1]
  /\ UNCHANGED b

\* QoS 0 publish: write_all + flush straight from scratch space (not cancel-safe)
Q0Write(part) ==
  /\ c.pc.t = "qw"
  /\ part => c.pc.w = 0
  /\ n' = Wire(n, << "P0", c.pc.op.m >>, c.pc.w, ~part)
  /\ c' = IF part THEN [c EXCEPT !.pc.w = 1] ELSE [c EXCEPT !.pc = [t |-> "qf", op |-> c.pc.op]]
  /\ hist' = Log("w", part)
  /\ o' = Track(o, c')
  /\ UNCHANGED b

Q0Flush(ok) ==
  /\ c.pc.t = "qf" /\ (~ok => n.faults < MaxFault)
  /\ c' = IF ok THEN Ret(c, Ok("none")) ELSE Ret(HandleDisconnect(c), Err("Transport"))
  /\ hist' = Log(IF ok THEN "f" ELSE "ferr", << >>)
  /\ o' = Track(o, c')
  /\ n' = IF ~ok THEN [n EXCEPT !.faults = @ + 1] ELSE n
  /\ UNCHANGED b

Q0WriteFail ==
  /\ c.pc.t = "qw" /\ n.faults < MaxFault
  /\ c' = Ret(HandleDisconnect(c), Err("Transport"))
  /\ hist' = Log("werr", << >>)
  /\ o' = Track(o, c')
  /\ n' = [n EXCEPT !.faults = @ + 1]
  /\ UNCHANGED b

\* ... a QoS 0 publish that the transport takes nothing of: write-zero error, nothing sent, handle up
Q0Zero ==
  /\ Zeros /\ c.pc.t = "qw" /\ c.pc.w = 0 /\ n.faults < MaxFault
  /\ c' = Ret(c, Err("WriteZero"))
  /\ hist' = Log("wzero", << >>)
  /\ o' = Track(o, c')
  /\ n' = [n EXCEPT !.faults = @ + 1]
  /\ UNCHANGED b

\* ... and a DISCONNECT: "the transport is finished after a DISCONNECT regardless of the write outcome"
DiscZero ==
  /\ Zeros /\ c.pc.t = "dw" /\ c.pc.w = 0 /\ n.faults < MaxFault
  /\ c' = Ret(HandleDisconnect(c), Err("WriteZero"))
  /\ hist' = Log("wzero", << >>)
  /\ o' = Track(o, c')
  /\ n' = [n EXCEPT !.faults = @ + 1]
  /\ UNCHANGED b

\* ---- broker ---------------------------------------------------------------

Send(p) == n' = [n EXCEPT !.b2c = Append(@, p)]
Connected == c.up /\ c.live /\ (c.pc = Idle \/ c.pc.t = "ar")

\* acknowledge something received, in any order, with a success or (budgeted) failure code
BrokerAck(x, fail) ==
  /\ Connected /\ x \in b.got /\ Len(n.b2c) < 2
  /\ fail => b.fails < MaxFail
  /\ LET rc == IF fail THEN 135 ELSE 0
         t == CASE x[1] = "P1" -> "PUBACK" [] x[1] = "P2" -> "PUBREC" [] x[1] = "PUBREL" -> "PUBCOMP"
                [] x[1] = "SUB" -> "SUBACK" [] OTHER -> "UNSUBACK"
     IN /\ Send([t |-> t, id |-> x[2], rc |-> IF x[1] = "PUBREL" /\ x[2] \notin b.q2 THEN 146 ELSE rc])
        /\ b' = [b EXCEPT !.got = @ \ {x}, !.fails = IF fail THEN @ + 1 ELSE @,
                          !.un = IF x[1] = "P1" \/ x[1] = "PUBREL" \/ (x[1] = "P2" /\ fail) THEN @ \ {x[2]} ELSE @,
                          !.q2 = IF x[1] = "P2" /\ ~fail THEN @ \cup {x[2]}
                                 ELSE IF x[1] = "PUBREL" THEN @ \ {x[2]} ELSE @]
  /\ hist' = LogB("b", << x, fail >>)
  /\ UNCHANGED << c, o >>

\* an acknowledgement for an identifier that is not in use (stale / duplicate)
BrokerStale(t, id) ==
  /\ Connected /\ b.fails < MaxFail /\ Len(n.b2c) < 2
  /\ ~InUse(c, id) /\ \A x \in b.got : x[2] # id
  /\ Send([t |-> t, id |-> id, rc |-> 0, stale |-> TRUE])
  /\ b' = [b EXCEPT !.fails = @ + 1]
  /\ hist' = LogB("b", << t, id >>)
  /\ UNCHANGED << c, o >>

\* broker-initiated traffic: PUBLISH at any QoS with an identifier not in flight, PUBREL after
\* the client's PUBREC, retransmission of an unacknowledged QoS 2 PUBLISH
BrokerPublish(q, id) ==
  /\ Connected /\ b.nin < MaxIn /\ Len(n.b2c) < 2
  /\ q > 0 => \A x \in b.inq : x.id # id
  /\ Send([t |-> "PUBLISH", q |-> q, id |-> IF q = 0 THEN 0 ELSE id, rc |-> 0])
  /\ b' = [b EXCEPT !.nin = @ + 1, !.inq = IF q = 0 THEN @ ELSE @ \cup {[id |-> id, q |-> q, ph |-> "pub"]}]
  /\ hist' = LogB("b", << "PUBLISH", q, id >>)
  /\ UNCHANGED << c, o >>

BrokerRelease(x) ==
  /\ Connected /\ x \in b.inq /\ x.q = 2 /\ x.ph = "rec" /\ Len(n.b2c) < 2
  /\ Send([t |-> "PUBREL", id |-> x.id, rc |-> 0])
  /\ b' = [b EXCEPT !.inq = (@ \ {x}) \cup {[x EXCEPT !.ph = "rel"]}]
  /\ hist' = LogB("b", << "PUBREL", x.id >>)
  /\ UNCHANGED << c, o >>

BrokerRetransmit(x) ==
  /\ Connected /\ x \in b.inq /\ x.q = 2 /\ x.ph = "pub" /\ b.nin < MaxIn /\ Len(n.b2c) < 2
  /\ Send([t |-> "PUBLISH", q |-> 2, id |-> x.id, rc |-> 0])
  /\ b' = [b EXCEPT !.nin = @ + 1]
  /\ hist' = LogB("b", << "PUBLISH", 2, x.id >>)
  /\ UNCHANGED << c, o >>

BrokerDisconnect ==
  /\ Connected /\ b.fails < MaxFail /\ Len(n.b2c) < 2
  /\ Send([t |-> "DISCONNECT", id |-> 0, rc |-> 0])
  /\ b' = [b EXCEPT !.fails = @ + 1]
  /\ hist' = LogB("b", << "DISCONNECT" >>)
  /\ UNCHANGED << c, o >>

\* the broker forgets the session while the client is away
SessionLoss ==
  /\ NoHandle /\ b.sess /\ b.fails < MaxFail
  /\ b' = [b EXCEPT !.sess = FALSE, !.fails = @ + 1]
  /\ hist' = LogB("sessionloss", << >>)
  /\ UNCHANGED << c, n, o >>

---------------------------------------------------------------------------
\* initial state and next-state relation

Op0 == [k |-> "", gen |-> 0, epoch |-> 0, conn |-> 0, id |-> 0, ph |-> "new", acc |-> FALSE, h |-> FALSE,
        sc |-> 0, cnt |-> 0, rsc |-> 0, rcnt |-> 0, recseq |-> 0]

Init ==
  /\ c = [sp |-> FALSE, gen |-> 0, nid |-> 1, ret |-> << >>, rel |-> << >>, ctl |-> << >>, sids |-> {},
          quota |-> Cap, maxq |-> Cap, live |-> FALSE, up |-> FALSE, event |-> "", pc |-> Idle,
          last |-> [k |-> "none"]]
  /\ n = [conn |-> 0, open |-> << >>, bad |-> FALSE, badkf |-> FALSE, cancels |-> 0, faults |-> 0, b2c |-> << >>, disc |-> FALSE, dcan |-> FALSE, clean |-> TRUE]
  /\ b = [sess |-> FALSE, un |-> {}, got |-> {}, q2 |-> {}, inq |-> {}, nin |-> 0, fails |-> 0, rm |-> 0,
          over |-> FALSE, overreplay |-> FALSE]
  /\ o = [ops |-> << >>, q0 |-> 0, epoch |-> 0, recn |-> 0, twice |-> FALSE, afterack |-> FALSE,
          wrongdup |-> FALSE, idclash |-> FALSE, stale |-> FALSE, order |-> FALSE, newfirst |-> FALSE,
          relbad |-> FALSE, relorder |-> FALSE, got2 |-> {}]
  /\ hist = << >>

Ids == 1..IdMax
StaleIds == 1..(IF IdMax < 3 THEN IdMax ELSE 3)

Next ==
  \/ AppConnect
  \/ \E k \in Kinds \cap {"P1", "P2"} : AppPublish(k)
  \/ \E k \in Kinds \cap {"SUB", "UNS"} : AppSubscribe(k)
  \/ AppPublish0
  \/ AppPoll
  \/ AppRecv
  \/ AppDrive
  \/ AppDisconnect
  \/ Cancel
  \/ DropHandle
  \/ \E part \in Parts : IoWrite(part)
  \/ \E part \in Parts : ConnWrite(part)
  \/ \E part \in Parts : DiscWrite(part)
  \/ \E part \in Parts : Q0Write(part)
  \/ \E ok \in BOOLEAN : Q0Flush(ok)
  \/ Q0WriteFail
  \/ Q0Zero
  \/ IoFlush
  \/ IoFail
  \/ IoZero
  \/ \E p \in Range(n.b2c) : IoRead(p)
  \/ LoseInconsistent
  \/ \E kind \in {"eof", "rerr"} : IoReadFail(kind)
  \/ ConnFlush
  \/ ConnFail
  \/ \E sp \in BOOLEAN : \E rm \in RMs : ConnAck(sp, rm)
  \/ \E sp \in BOOLEAN : ConnAckBad(sp)
  \/ ConnOther([t |-> "CONNACK", sp |-> FALSE, rc |-> 135, rm |-> 0])
  \/ ConnOther([t |-> "PUBACK", id |-> 1, rc |-> 0])
  \/ \E ok \in BOOLEAN : DiscFlush(ok)
  \/ DiscWriteFail
  \/ DiscZero
  \/ \E x \in b.got : \E fail \in BOOLEAN : BrokerAck(x, fail)
  \/ \E t \in {"PUBACK", "PUBREC", "PUBCOMP", "SUBACK"} : \E id \in StaleIds : BrokerStale(t, id)
  \/ \E q \in 0..2 : \E id \in 1..MaxIn : BrokerPublish(q, id)
  \/ \E x \in b.inq : BrokerRelease(x)
  \/ \E x \in b.inq : BrokerRetransmit(x)
  \/ BrokerDisconnect
  \/ SessionLoss

Spec == Init /\ [][Next]_vars

=============================================================================
