SPECIFICATION Spec
CONSTANTS
  MaxOps = 1
  MaxConns = 2
  IdMax = 3
  Cap = 2
  CtlCap = 2
  RMs = {1}
  MaxIn = 1
  MaxFail = 1
  MaxQ0 = 1
  Kinds = {"P1"}
  Parts = {TRUE, FALSE}
  MaxCancel = 0
  MaxFault = 1
  Zeros = TRUE
  Dev = {}
  Record = FALSE
VIEW View
INVARIANTS
  Inv_Usable
  Inv_C04 Inv_C01 Inv_C02 Inv_C03 Inv_C05 Inv_C06 Inv_C07 Inv_C11 Inv_C12 Inv_C16 Inv_C18 Inv_Caps
PROPERTY QuotaRefines
CHECK_DEADLOCK FALSE
