----------------------------- MODULE MC_timesim -----------------------------
(* Behaviour generation for the keep-alive automaton (see tools/replay_time.py). *)
EXTENDS Timers, Json

\* simulation only: connections are not thrown away at once (Drop is always enabled; a random walk would use
\* up its connections in its first steps) -- a connection ends when something is at stake
SimDrop == (live /\ ~live' /\ Len(hist') > Len(hist) /\ hist'[Len(hist')].a = "drop")
           => (queued \/ (pingAt # None /\ now = pingAt) \/ (pingAt = None /\ (now \div UNIT) % 6 = 3))
\* ... and steps that do not let time pass (other inbound traffic, QoS 0 publishes) are thinned out, so that a
\* walk of a few dozen steps reaches the keep-alive deadlines
SimPace ==
  LET a == IF hist' # << >> THEN hist'[Len(hist')] ELSE [a |-> "", p |-> ""] IN
  /\ (Len(hist') > Len(hist) /\ a.a = "b" /\ a.p = "OTHER") => (now \div UNIT) % 4 = 1
  /\ (Len(hist') > Len(hist) /\ a.a = "q0") => (now \div UNIT) % 5 = 2
  /\ (Len(hist') > Len(hist) /\ a.a = "q0zero") => (now \div UNIT) % 5 = 4
  \* a PINGRESP comes at once, or around the round-trip bound (so that walks reach the bound and the timeout)
  /\ (Len(hist') > Len(hist) /\ a.a = "b" /\ a.p = "PINGRESP") => (now = pingAt \/ now + 3 * UNIT >= pingAt + RTT)

Emit == (hist # << >>) => PrintT("@H " \o ToString(TLCGet("stats").traces) \o " " \o ToJson(hist))
=============================================================================
