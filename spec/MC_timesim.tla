----------------------------- MODULE MC_timesim -----------------------------
(* Behaviour generation for the keep-alive automaton (see tools/replay_time.py). *)
EXTENDS Timers, Json

Emit == (hist # << >>) => PrintT("@H " \o ToString(TLCGet("stats").traces) \o " " \o ToJson(hist))
=============================================================================
