------------------------------ MODULE MC_codec ------------------------------
(***************************************************************************)
(* Internal consistency of the wire grammar MqttCodec (the oracle of C01,    *)
(* C08, C09, C19, C20): evaluated by TLC as ASSUME-style lemmas over          *)
(* enumerated finite domains.  No behaviour: one state, the work is in the     *)
(* invariants' evaluation.                                                    *)
(*                                                                           *)
(*  L1  variable byte integer: Varint(EncVarint(v)) = v, length = VarintLen    *)
(*      at and around every boundary; overlong and five-byte forms are bad.     *)
(*  L2  property round trip: PropsFrom(EncPropSeq(ps)) = ps for every kind       *)
(*      with boundary values; |EncProp(p)| matches the wire-type arithmetic.     *)
(*  L3  PropTable sanity: every kind has a wire type and at least one context;    *)
(*      client request legality (ReqOk) per context matches MQTT 5 table 2-4.     *)
(*  L4  PUBLISH round trip through DecClient / DecServer for all flag             *)
(*      combinations, property lists and payload lengths in the domain.            *)
(*  L5  acknowledgement forms (2 / 3 / 4+ bytes) decode to the same fields.         *)
(*  L6  every two-byte prefix: Frame is total (more / bad / ok) and DecServer        *)
(*      never yields "ok" for a packet whose declared length differs from its size.   *)
(***************************************************************************)
EXTENDS MqttCodec, TLC

VARIABLE dummy
Init == dummy = 0
Next == UNCHANGED dummy
Spec == Init /\ [][Next]_dummy

Boundaries == {0, 1, 127, 128, 129, 16383, 16384, 16385, 2097151, 2097152, 2097153, 268435455}

L1 ==
  /\ \A v \in Boundaries :
       LET e == EncVarint(v)  d == Varint(e, 1) IN
       d.st = "ok" /\ d.v = v /\ d.n = Len(e) /\ Len(e) = VarintLen(v)
  /\ Varint(<< 128, 0 >>, 1).st = "bad"
  /\ Varint(<< 255, 255, 255, 255, 1 >>, 1).st = "bad"
  /\ Varint(<< 128, 128, 128, 128 >>, 1).st = "bad"
  /\ Varint(<< 255, 255 >>, 1).st = "more"
  /\ Varint(<< 255, 255, 255, 127 >>, 1) = [st |-> "ok", v |-> 268435455, n |-> 4]

Str == {<< >>, << 97 >>, << 97, 47, 98 >>}
SampleProp(id) ==
  IF id \in PByte THEN {Prop(id, n, << >>, << >>) : n \in {0, 1}}
  ELSE IF id \in PU16 THEN {Prop(id, n, << >>, << >>) : n \in {0, 1, 255, 256, 65535}}
  ELSE IF id \in PU32 THEN {Prop(id, 0, s, << >>) : s \in {<< 0, 0, 0, 0 >>, << 0, 0, 1, 0 >>, << 255, 255, 255, 255 >>}}
  ELSE IF id \in PVarint THEN {Prop(id, n, << >>, << >>) : n \in {1, 127, 128, 16384, 268435455}}
  ELSE IF id \in PPair THEN {Prop(id, 0, k, v) : k \in Str, v \in Str}
  ELSE {Prop(id, 0, s, << >>) : s \in Str}

AllSamples == UNION {SampleProp(id) : id \in PropIds}

L2 ==
  /\ \A p \in AllSamples :
       LET e == EncProp(p)  r == PropsFrom(e, 1, Len(e), << >>) IN
       r.st = "ok" /\ r.props = << p >>
  /\ \A p \in AllSamples, q \in SampleProp(38) :
       LET e == EncPropSeq(<< p, q, p >>)  r == PropsFrom(e, 1, Len(e), << >>) IN
       r.st = "ok" /\ r.props = << p, q, p >>
  /\ \A p \in AllSamples :
       LET b == EncPropBlock(<< p >>)  r == PropBlock(b, 1, Len(b)) IN
       r.st = "ok" /\ r.props = << p >> /\ r.n = Len(b)

\* MQTT 5 table 2-4, restricted to what a client may put into a request
ReqOk(id, ctx) == ctx \in PropCtx(id) /\ ~(ctx = PUBLISH /\ id = 11)
L3 ==
  /\ \A id \in PropIds : PropCtx(id) # {}
  /\ {id \in PropIds : ReqOk(id, PUBLISH)} = {1, 2, 3, 8, 9, 35, 38}
  /\ {id \in PropIds : ReqOk(id, SUBSCRIBE)} = {11, 38}
  /\ {id \in PropIds : ReqOk(id, UNSUBSCRIBE)} = {38}
  /\ {id \in PropIds : ReqOk(id, DISCONNECT)} = {17, 28, 31, 38}
  /\ {id \in PropIds : ReqOk(id, CtxWill)} = {1, 2, 3, 8, 9, 24, 38}
  /\ {id \in PropIds : ReqOk(id, CONNACK)} = {17, 18, 19, 21, 22, 26, 28, 31, 33, 34, 36, 37, 38, 39, 40, 41, 42}
  /\ Cardinality(PropIds) = 27

PropLists == {<< >>, << Prop(38, 0, << 107 >>, << 118 >>) >>,
              << Prop(9, 0, << 1, 2 >>, << >>), Prop(8, 0, << 114 >>, << >>) >>,
              << Prop(1, 1, << >>, << >>), Prop(2, 0, << 0, 0, 0, 9 >>, << >>), Prop(3, 0, << 116 >>, << >>) >>}
Payloads == {<< >>, << 120 >>, << 1, 2, 3 >>}

L4 ==
  \A q \in 0..2, dup \in 0..1, rt \in 0..1, ps \in PropLists, pay \in Payloads :
    (q > 0 \/ dup = 0) =>
      LET b == EncPublish(q, dup, rt, << 97, 47, 98 >>, IF q = 0 THEN 0 ELSE 9, ps, pay)
          c == DecClient(b)  s == DecServer(b) IN
      /\ c.st = "ok" /\ s.st = "ok" /\ c = s
      /\ c.q = q /\ c.dup = dup /\ c.rt = rt /\ c.topic = << 97, 47, 98 >> /\ c.props = ps /\ c.payload = pay
      /\ (q > 0 => c.id = 9)
      /\ Frame(b) = [st |-> "ok", len |-> Len(b), hdr |-> 2]

L5 ==
  \A t \in {PUBACK, PUBREC, PUBCOMP} :
    LET a == DecServer(<< t * 16, 2, 0, 7 >>)
        b == DecServer(<< t * 16, 3, 0, 7, 0 >>)
        c == DecServer(<< t * 16, 4, 0, 7, 0, 0 >>) IN
    /\ a.st = "ok" /\ b.st = "ok" /\ c.st = "ok"
    /\ a.id = 7 /\ b.id = 7 /\ c.id = 7 /\ a.rc = 0 /\ b.rc = 0 /\ c.rc = 0
    /\ DecServer(<< t * 16, 5, 0, 7, 0, 0, 170 >>).st = "bad"          \* trailing garbage
    /\ DecServer(<< t * 16, 1, 0 >>).st = "bad"                          \* truncated id
    /\ DecServer(<< t * 16 + 1, 2, 0, 7 >>).st = "bad"                   \* illegal flags

L6 ==
  \A b0 \in 0..255, b1 \in {0, 1, 2, 127, 128, 255} :
    LET f == Frame(<< b0, b1 >>) IN
    /\ f.st \in {"more", "bad", "ok"}
    /\ (b1 = 0 => (f.st = "ok" /\ f.len = 2))
    /\ (b1 = 0 => DecServer(<< b0, b1 >>).st \in
                    (IF b0 \div 16 \in {PINGRESP, DISCONNECT} /\ b0 % 16 = 0 THEN {"ok"} ELSE {"bad", "dc"}))

Inv_Codec == L1 /\ L2 /\ L3 /\ L4 /\ L5 /\ L6
=============================================================================
