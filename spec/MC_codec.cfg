SPECIFICATION Spec
INVARIANT Inv_Codec
CHECK_DEADLOCK FALSE
