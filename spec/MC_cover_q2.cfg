SPECIFICATION Spec
CONSTANTS
  MaxOps = 1
  MaxConns = 2
  IdMax = 60
  Cap = 8
  CtlCap = 8
  RMs = {2}
  MaxIn = 1
  MaxFail = 0
  MaxQ0 = 0
  Kinds = {"P2"}
  Parts = {TRUE, FALSE}
  MaxCancel = 0
  MaxFault = 1
  Zeros = TRUE
  Dev = {}
  Record = FALSE
INVARIANTS
  Inv_C04 Inv_C01 Inv_C02 Inv_C03 Inv_C05 Inv_C06 Inv_C07 Inv_C11 Inv_C12 Inv_C16 Inv_C18 Inv_Caps
CHECK_DEADLOCK FALSE
