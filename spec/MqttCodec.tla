----------------------------- MODULE MqttCodec -----------------------------
(***************************************************************************)
(* MQTT 5.0 wire grammar as pure operators over byte sequences (sequences   *)
(* of 0..255).  Written from the OASIS standard (sections 1.5, 2, 3), not   *)
(* from minimq's src/ser or src/de.  TLC evaluates these operators on the   *)
(* bytes the real client wrote (so this module is the independent strict    *)
(* decoder) and on the bytes fed to the client (so it is the oracle for     *)
(* what must be accepted / rejected).                                        *)
(*                                                                           *)
(* Verdicts: "ok"  well-formed,                                              *)
(*           "bad" malformed in one of the ways the properties list,         *)
(*           "dc"  irregular in a way no listed property constrains          *)
(*                 (don't care), e.g. the inside of an inbound property      *)
(*                 block, which the client decodes lazily.                   *)
(***************************************************************************)
EXTENDS Naturals, Sequences, FiniteSets

Byte == 0..255

\* packet type numbers
CONNECT == 1      CONNACK == 2     PUBLISH == 3     PUBACK == 4
PUBREC == 5       PUBREL == 6      PUBCOMP == 7     SUBSCRIBE == 8
SUBACK == 9       UNSUBSCRIBE == 10 UNSUBACK == 11  PINGREQ == 12
PINGRESP == 13    DISCONNECT == 14 AUTH == 15

Sub(bs, i, n) == SubSeq(bs, i, i + n - 1)          \* n bytes starting at index i
Have(bs, i, n) == i + n - 1 <= Len(bs)

U16(bs, i) == bs[i] * 256 + bs[i + 1]
U32(bs, i) == ((bs[i] * 256 + bs[i + 1]) * 256 + bs[i + 2]) * 256 + bs[i + 3]

EncU16(v) == << v \div 256, v % 256 >>
EncU32(v) == << v \div 16777216, (v \div 65536) % 256, (v \div 256) % 256, v % 256 >>

(***************************************************************************)
(* Variable byte integer (1.5.5): canonical (shortest) form only, at most   *)
(* four bytes.  Result: st = "ok" (v, n = bytes used), "more" (ran off the  *)
(* end before termination), "bad" (overlong or more than four bytes).       *)
(***************************************************************************)
RECURSIVE VarintAt(_, _, _, _, _)
VarintAt(bs, i, k, acc, mult) ==
  IF k > 4 THEN [st |-> "bad"]
  ELSE IF i > Len(bs) THEN [st |-> "more"]
  ELSE LET b == bs[i]  part == b % 128 IN
       IF b >= 128 THEN VarintAt(bs, i + 1, k + 1, acc + part * mult, mult * 128)
       ELSE IF k > 1 /\ part = 0 THEN [st |-> "bad"]
       ELSE [st |-> "ok", v |-> acc + part * mult, n |-> k]

Varint(bs, i) == VarintAt(bs, i, 1, 0, 1)

RECURSIVE EncVarint(_)
EncVarint(v) == IF v < 128 THEN << v >> ELSE << 128 + (v % 128) >> \o EncVarint(v \div 128)

VarintLen(v) == IF v < 128 THEN 1 ELSE IF v < 16384 THEN 2 ELSE IF v < 2097152 THEN 3 ELSE 4
VarintMax == 268435455

(***************************************************************************)
(* Framing of a byte stream: does it start with a complete packet?          *)
(***************************************************************************)
Frame(bs) ==
  IF Len(bs) < 2 THEN [st |-> "more"]
  ELSE LET v == Varint(bs, 2) IN
       IF v.st # "ok" THEN [st |-> v.st]
       ELSE LET total == 1 + v.n + v.v IN
            IF Len(bs) < total THEN [st |-> "more", need |-> total]
            ELSE [st |-> "ok", len |-> total, hdr |-> 1 + v.n]

(***************************************************************************)
(* UTF-8 well-formedness (1.5.4, RFC 3629): no overlong forms, no           *)
(* surrogates, nothing above U+10FFFF.  U+0000 is reported separately.      *)
(***************************************************************************)
Cont(b) == b >= 128 /\ b < 192
RECURSIVE Utf8From(_, _)
Utf8From(bs, i) ==
  IF i > Len(bs) THEN TRUE
  ELSE LET b == bs[i] IN
    IF b < 128 THEN Utf8From(bs, i + 1)
    ELSE IF b >= 194 /\ b <= 223 THEN
         Have(bs, i, 2) /\ Cont(bs[i + 1]) /\ Utf8From(bs, i + 2)
    ELSE IF b >= 224 /\ b <= 239 THEN
         /\ Have(bs, i, 3) /\ Cont(bs[i + 1]) /\ Cont(bs[i + 2])
         /\ (b = 224 => bs[i + 1] >= 160)            \* overlong
         /\ (b = 237 => bs[i + 1] < 160)             \* surrogates
         /\ Utf8From(bs, i + 3)
    ELSE IF b >= 240 /\ b <= 244 THEN
         /\ Have(bs, i, 4) /\ Cont(bs[i + 1]) /\ Cont(bs[i + 2]) /\ Cont(bs[i + 3])
         /\ (b = 240 => bs[i + 1] >= 144)            \* overlong
         /\ (b = 244 => bs[i + 1] < 144)             \* > U+10FFFF
         /\ Utf8From(bs, i + 4)
    ELSE FALSE

Utf8Ok(bs) == Utf8From(bs, 1)
HasNul(bs) == \E i \in 1..Len(bs) : bs[i] = 0

\* length-prefixed field at index i: [st, v (content), n (bytes used)]
Lp(bs, i) ==
  IF ~Have(bs, i, 2) THEN [st |-> "bad"]
  ELSE LET l == U16(bs, i) IN
       IF ~Have(bs, i + 2, l) THEN [st |-> "bad"]
       ELSE [st |-> "ok", v |-> Sub(bs, i + 2, l), n |-> 2 + l]

EncLp(s) == EncU16(Len(s)) \o s

(***************************************************************************)
(* Properties (2.2.2).  A decoded property is [id, n, s, t]: n numeric       *)
(* value, s string / binary value (or user property key), t user property    *)
(* value.  Unused fields are 0 / << >>.                                      *)
(***************************************************************************)
PByte   == {1, 23, 25, 36, 37, 40, 41, 42}
PU16    == {19, 33, 34, 35}
PU32    == {2, 17, 24, 39}
PVarint == {11}
PUtf8   == {3, 8, 18, 21, 26, 28, 31}
PBin    == {9, 22}
PPair   == {38}
PropIds == PByte \cup PU16 \cup PU32 \cup PVarint \cup PUtf8 \cup PBin \cup PPair

Prop(id, n, s, t) == [id |-> id, n |-> n, s |-> s, t |-> t]

\* packet contexts
CtxWill == 0
\* contexts are the packet type numbers plus CtxWill
PropCtx(id) ==
  CASE id \in {1, 2, 3, 8, 9} -> {PUBLISH, CtxWill}
    [] id = 11 -> {PUBLISH, SUBSCRIBE}
    [] id = 17 -> {CONNECT, CONNACK, DISCONNECT}
    [] id \in {18, 19} -> {CONNACK}
    [] id \in {21, 22} -> {CONNECT, CONNACK, AUTH}
    [] id \in {23, 25} -> {CONNECT}
    [] id = 24 -> {CtxWill}
    [] id = 26 -> {CONNACK}
    [] id = 28 -> {CONNACK, DISCONNECT}
    [] id = 31 -> {CONNACK, PUBACK, PUBREC, PUBREL, PUBCOMP, SUBACK, UNSUBACK, DISCONNECT, AUTH}
    [] id \in {33, 34} -> {CONNECT, CONNACK}
    [] id = 35 -> {PUBLISH}
    [] id \in {36, 37, 40, 41, 42} -> {CONNACK}
    [] id = 38 -> {CtxWill} \cup (1..15)
    [] id = 39 -> {CONNECT, CONNACK}
    [] OTHER -> {}

\* value range rules (2.2.2.2 and the per-packet sections)
PropValueOk(p) ==
  CASE p.id \in {1, 23, 25, 37, 40, 41, 42} -> p.n <= 1
    [] p.id = 36 -> p.n <= 1            \* Maximum QoS: 0 or 1 (2 is expressed by absence)
    [] p.id = 11 -> p.n >= 1 /\ p.n <= VarintMax
    [] p.id = 35 -> p.n >= 1
    [] p.id = 33 -> p.n >= 1
    [] p.id = 39 -> p.s # << 0, 0, 0, 0 >>
    [] OTHER -> TRUE

\* one property at index i of bs (bounded by end index e, inclusive)
PropAt(bs, i, e) ==
  LET idv == Varint(bs, i) IN
  IF idv.st # "ok" \/ i > e THEN [st |-> "bad"]
  ELSE LET id == idv.v  j == i + idv.n IN
    IF id \in PByte THEN
       IF j <= e THEN [st |-> "ok", p |-> Prop(id, bs[j], << >>, << >>), n |-> idv.n + 1]
       ELSE [st |-> "bad"]
    ELSE IF id \in PU16 THEN
       IF j + 1 <= e THEN [st |-> "ok", p |-> Prop(id, U16(bs, j), << >>, << >>), n |-> idv.n + 2]
       ELSE [st |-> "bad"]
    ELSE IF id \in PU32 THEN
       \* four-byte values stay as bytes in `s` (TLC integers are 32-bit signed)
       IF j + 3 <= e THEN [st |-> "ok", p |-> Prop(id, 0, Sub(bs, j, 4), << >>), n |-> idv.n + 4]
       ELSE [st |-> "bad"]
    ELSE IF id \in PVarint THEN
       LET v == Varint(bs, j) IN
       IF v.st = "ok" /\ j + v.n - 1 <= e
       THEN [st |-> "ok", p |-> Prop(id, v.v, << >>, << >>), n |-> idv.n + v.n]
       ELSE [st |-> "bad"]
    ELSE IF id \in PUtf8 \cup PBin THEN
       LET f == Lp(bs, j) IN
       IF f.st = "ok" /\ j + f.n - 1 <= e /\ (id \in PUtf8 => Utf8Ok(f.v))
       THEN [st |-> "ok", p |-> Prop(id, 0, f.v, << >>), n |-> idv.n + f.n]
       ELSE [st |-> "bad"]
    ELSE IF id \in PPair THEN
       LET k == Lp(bs, j) IN
       IF k.st # "ok" \/ j + k.n - 1 > e THEN [st |-> "bad"]
       ELSE LET v == Lp(bs, j + k.n) IN
            IF v.st = "ok" /\ j + k.n + v.n - 1 <= e /\ Utf8Ok(k.v) /\ Utf8Ok(v.v)
            THEN [st |-> "ok", p |-> Prop(id, 0, k.v, v.v), n |-> idv.n + k.n + v.n]
            ELSE [st |-> "bad"]
    ELSE [st |-> "bad"]

RECURSIVE PropsFrom(_, _, _, _)
PropsFrom(bs, i, e, acc) ==
  IF i > e THEN [st |-> "ok", props |-> acc]
  ELSE LET r == PropAt(bs, i, e) IN
       IF r.st # "ok" THEN [st |-> "bad"]
       ELSE PropsFrom(bs, i + r.n, e, Append(acc, r.p))

(***************************************************************************)
(* Property block at index i: varint length + that many bytes.              *)
(*   st = "bad"   the length itself is broken or runs past `e`               *)
(*   st = "inner" the block is delimited but its inside does not parse       *)
(*   st = "ok"    props, n = bytes used including the length prefix          *)
(***************************************************************************)
PropBlock(bs, i, e) ==
  LET lv == Varint(bs, i) IN
  IF lv.st # "ok" \/ i > e THEN [st |-> "bad"]
  ELSE LET first == i + lv.n  last == i + lv.n + lv.v - 1 IN
       IF last > e THEN [st |-> "bad"]
       ELSE LET r == PropsFrom(bs, first, last, << >>) IN
            IF r.st = "ok"
            THEN [st |-> "ok", props |-> r.props, n |-> lv.n + lv.v, raw |-> Sub(bs, first, lv.v)]
            ELSE [st |-> "inner", n |-> lv.n + lv.v, raw |-> Sub(bs, first, lv.v)]

PropsAllowed(props, ctx) == \A k \in 1..Len(props) : ctx \in PropCtx(props[k].id)
PropsValuesOk(props) == \A k \in 1..Len(props) : PropValueOk(props[k])
\* properties that may appear at most once (everything except user property; a
\* subscription identifier may repeat in a server PUBLISH)
PropsNoDup(props, multi) ==
  \A a, b \in 1..Len(props) : (a # b /\ props[a].id = props[b].id) => props[a].id \in multi

HasProp(props, id) == \E k \in 1..Len(props) : props[k].id = id
FirstProp(props, id) == props[CHOOSE k \in 1..Len(props) :
                                 props[k].id = id /\ \A j \in 1..(k - 1) : props[j].id # id]

\* ---- encoding of properties (for round-trip lemmas and expected bytes) ----
EncProp(p) ==
  EncVarint(p.id) \o
  (IF p.id \in PByte THEN << p.n >>
   ELSE IF p.id \in PU16 THEN EncU16(p.n)
   ELSE IF p.id \in PU32 THEN p.s
   ELSE IF p.id \in PVarint THEN EncVarint(p.n)
   ELSE IF p.id \in PPair THEN EncLp(p.s) \o EncLp(p.t)
   ELSE EncLp(p.s))

RECURSIVE EncPropSeq(_)
EncPropSeq(ps) == IF ps = << >> THEN << >> ELSE EncProp(Head(ps)) \o EncPropSeq(Tail(ps))
EncPropBlock(ps) == LET body == EncPropSeq(ps) IN EncVarint(Len(body)) \o body

(***************************************************************************)
(* Fixed header flags (2.1.3).                                              *)
(***************************************************************************)
FlagsLegal(t, fl) ==
  CASE t = PUBLISH -> (fl \div 2) % 4 # 3
    [] t \in {PUBREL, SUBSCRIBE, UNSUBSCRIBE} -> fl = 2
    [] t \in 1..15 -> fl = 0
    [] OTHER -> FALSE

ClientMaySend == {CONNECT, PUBLISH, PUBACK, PUBREC, PUBREL, PUBCOMP, SUBSCRIBE, UNSUBSCRIBE,
                  PINGREQ, DISCONNECT, AUTH}
ServerMaySend == {CONNACK, PUBLISH, PUBACK, PUBREC, PUBREL, PUBCOMP, SUBACK, UNSUBACK,
                  PINGRESP, DISCONNECT, AUTH}

Bad == [st |-> "bad"]
Dc  == [st |-> "dc"]

(***************************************************************************)
(* Acknowledgement body shared by PUBACK/PUBREC/PUBREL/PUBCOMP (3.4-3.7):   *)
(* id [reason [property block]], exactly filling the remaining length.      *)
(***************************************************************************)
AckBody(bs, i, e, t) ==
  IF e - i + 1 < 2 THEN Bad
  ELSE LET id == U16(bs, i) IN
    IF e - i + 1 = 2 THEN [st |-> "ok", t |-> t, id |-> id, rc |-> 0, props |-> << >>, short |-> 2]
    ELSE LET rc == bs[i + 2] IN
      IF e - i + 1 = 3 THEN [st |-> "ok", t |-> t, id |-> id, rc |-> rc, props |-> << >>, short |-> 3]
      ELSE LET pb == PropBlock(bs, i + 3, e) IN
           IF pb.st = "bad" THEN Bad
           ELSE IF i + 3 + pb.n - 1 # e THEN Bad          \* trailing garbage
           ELSE IF pb.st = "inner" THEN Dc
           ELSE [st |-> "ok", t |-> t, id |-> id, rc |-> rc, props |-> pb.props, short |-> 0]

(***************************************************************************)
(* PUBLISH (3.3), either direction.                                         *)
(***************************************************************************)
DecPublish(bs, i, e, fl) ==
  LET q == (fl \div 2) % 4  dup == fl \div 8  rt == fl % 2
      tp == Lp(bs, i) IN
  IF q = 3 THEN Bad
  ELSE IF tp.st # "ok" \/ i + tp.n - 1 > e THEN Bad
  ELSE IF ~Utf8Ok(tp.v) THEN Bad
  ELSE LET j == i + tp.n
           idn == IF q > 0 THEN 2 ELSE 0 IN
    IF q > 0 /\ j + 1 > e THEN Bad
    ELSE LET id == IF q > 0 THEN U16(bs, j) ELSE 0
             pb == PropBlock(bs, j + idn, e) IN
      IF pb.st = "bad" THEN Bad
      ELSE LET pl == j + idn + pb.n IN
        [st |-> IF pb.st = "inner" THEN "dc" ELSE "ok",
         t |-> PUBLISH, q |-> q, dup |-> dup, rt |-> rt, topic |-> tp.v, id |-> id,
         props |-> IF pb.st = "ok" THEN pb.props ELSE << >>, rawprops |-> pb.raw,
         payload |-> Sub(bs, pl, e - pl + 1)]

(***************************************************************************)
(* Packets a server may send (what the client must accept / reject).        *)
(***************************************************************************)
DecConnack(bs, i, e) ==
  IF e - i + 1 < 3 THEN Bad
  ELSE LET fl == bs[i]  rc == bs[i + 1]  pb == PropBlock(bs, i + 2, e) IN
    IF fl > 1 THEN Bad
    ELSE IF pb.st = "bad" THEN Bad
    ELSE IF i + 2 + pb.n - 1 # e THEN Bad
    ELSE IF pb.st = "inner" THEN Dc
    ELSE [st |-> "ok", t |-> CONNACK, sp |-> fl, rc |-> rc, props |-> pb.props]

\* SUBACK / UNSUBACK (3.9, 3.11): id, property block, one or more reason codes
DecSubAck(bs, i, e, t) ==
  IF e - i + 1 < 3 THEN Bad
  ELSE LET id == U16(bs, i)  pb == PropBlock(bs, i + 2, e) IN
    IF pb.st = "bad" THEN Bad
    ELSE IF pb.st = "inner" THEN Dc
    ELSE LET c == i + 2 + pb.n IN
         [st |-> IF c > e THEN "dc" ELSE "ok",     \* no reason code at all: protocol error, dc
          t |-> t, id |-> id, props |-> pb.props, codes |-> Sub(bs, c, e - c + 1)]

\* DISCONNECT (3.14): [reason [property block]]
DecDisconnect(bs, i, e) ==
  IF e < i THEN [st |-> "ok", t |-> DISCONNECT, rc |-> 0, props |-> << >>, short |-> 0]
  ELSE LET rc == bs[i] IN
    IF e = i THEN [st |-> "ok", t |-> DISCONNECT, rc |-> rc, props |-> << >>, short |-> 1]
    ELSE LET pb == PropBlock(bs, i + 1, e) IN
         IF pb.st = "bad" THEN Bad
         ELSE IF i + 1 + pb.n - 1 # e THEN Bad
         ELSE IF pb.st = "inner" THEN Dc
         ELSE [st |-> "ok", t |-> DISCONNECT, rc |-> rc, props |-> pb.props, short |-> 2]

(***************************************************************************)
(* DecServer(bs): bs is exactly one framed packet (Frame(bs).len = Len(bs)). *)
(* Verdict for a client that never asked for enhanced authentication or      *)
(* topic aliases.                                                            *)
(***************************************************************************)
DecServer(bs) ==
  LET f == Frame(bs) IN
  IF f.st # "ok" \/ f.len # Len(bs) THEN Bad
  ELSE LET t == bs[1] \div 16  fl == bs[1] % 16  i == f.hdr + 1  e == Len(bs) IN
    IF t \notin ServerMaySend THEN Bad
    ELSE IF ~FlagsLegal(t, fl) THEN Bad
    ELSE IF t = AUTH THEN Dc
    ELSE IF t = CONNACK THEN DecConnack(bs, i, e)
    ELSE IF t = PUBLISH THEN
         LET p == DecPublish(bs, i, e, fl) IN
         IF p.st # "ok" THEN p
         ELSE IF HasProp(p.props, 35) THEN [p EXCEPT !.st = "dc"]      \* topic alias: not requested
         ELSE IF ~PropsAllowed(p.props, PUBLISH) THEN [p EXCEPT !.st = "dc"]
         ELSE IF ~PropsNoDup(p.props, {38, 11}) \/ ~PropsValuesOk(p.props) THEN [p EXCEPT !.st = "dc"]
         ELSE IF p.q = 0 /\ p.dup = 1 THEN [p EXCEPT !.st = "dc"]
         ELSE IF p.q > 0 /\ p.id = 0 THEN [p EXCEPT !.st = "dc"]
         ELSE IF p.topic = << >> \/ HasNul(p.topic) THEN [p EXCEPT !.st = "dc"]
         ELSE IF \E k \in 1..Len(p.topic) : p.topic[k] \in {35, 43} THEN [p EXCEPT !.st = "dc"]
         ELSE p
    \* identifier 0 in an acknowledgement is a protocol error of the broker: don't care
    ELSE IF t \in {PUBACK, PUBREC, PUBREL, PUBCOMP} THEN
         LET a == AckBody(bs, i, e, t) IN IF a.st = "ok" /\ a.id = 0 THEN Dc ELSE a
    ELSE IF t \in {SUBACK, UNSUBACK} THEN
         LET a == DecSubAck(bs, i, e, t) IN IF a.st = "ok" /\ a.id = 0 THEN Dc ELSE a
    ELSE IF t = PINGRESP THEN IF e < i THEN [st |-> "ok", t |-> PINGRESP] ELSE Bad
    ELSE DecDisconnect(bs, i, e)

(***************************************************************************)
(* Packets a client may send.                                                *)
(***************************************************************************)
\* CONNECT (3.1)
DecConnect(bs, i, e) ==
  IF e - i + 1 < 10 THEN Bad
  ELSE IF Sub(bs, i, 7) # << 0, 4, 77, 81, 84, 84, 5 >> THEN Bad       \* "MQTT", version 5
  ELSE LET fl == bs[i + 7]
           ka == U16(bs, i + 8)
           pb == PropBlock(bs, i + 10, e)
           willF == (fl \div 4) % 2   willQ == (fl \div 8) % 4   willR == (fl \div 32) % 2
           passF == (fl \div 64) % 2  userF == (fl \div 128) % 2  clean == (fl \div 2) % 2 IN
    IF fl % 2 # 0 THEN Bad
    ELSE IF pb.st # "ok" THEN Bad
    ELSE IF willF = 0 /\ (willQ # 0 \/ willR # 0) THEN Bad
    ELSE IF willQ = 3 THEN Bad
    ELSE LET c == i + 10 + pb.n
             cid == Lp(bs, c) IN
      IF cid.st # "ok" \/ ~Utf8Ok(cid.v) THEN Bad
      ELSE LET w0 == c + cid.n
               wp == IF willF = 1 THEN PropBlock(bs, w0, e) ELSE [st |-> "ok", props |-> << >>, n |-> 0]
           IN
        IF wp.st # "ok" THEN Bad
        ELSE LET w1 == w0 + wp.n
                 wt == IF willF = 1 THEN Lp(bs, w1) ELSE [st |-> "ok", v |-> << >>, n |-> 0] IN
          IF wt.st # "ok" \/ ~Utf8Ok(wt.v) THEN Bad
          ELSE LET w2 == w1 + wt.n
                   wd == IF willF = 1 THEN Lp(bs, w2) ELSE [st |-> "ok", v |-> << >>, n |-> 0] IN
            IF wd.st # "ok" THEN Bad
            ELSE LET u0 == w2 + wd.n
                     un == IF userF = 1 THEN Lp(bs, u0) ELSE [st |-> "ok", v |-> << >>, n |-> 0] IN
              IF un.st # "ok" \/ ~Utf8Ok(un.v) THEN Bad
              ELSE LET p0 == u0 + un.n
                       pw == IF passF = 1 THEN Lp(bs, p0) ELSE [st |-> "ok", v |-> << >>, n |-> 0] IN
                IF pw.st # "ok" THEN Bad
                ELSE IF p0 + pw.n - 1 # e THEN Bad
                ELSE IF ~PropsAllowed(pb.props, CONNECT) \/ ~PropsNoDup(pb.props, {38})
                        \/ ~PropsValuesOk(pb.props) THEN Bad
                ELSE IF ~PropsAllowed(wp.props, CtxWill) \/ ~PropsNoDup(wp.props, {38})
                        \/ ~PropsValuesOk(wp.props) THEN Bad
                ELSE [st |-> "ok", t |-> CONNECT, clean |-> clean, ka |-> ka, props |-> pb.props,
                      cid |-> cid.v, will |-> willF, willq |-> willQ, willr |-> willR,
                      willprops |-> wp.props, willtopic |-> wt.v, willdata |-> wd.v,
                      userf |-> userF, passf |-> passF, user |-> un.v, pass |-> pw.v]

\* SUBSCRIBE payload: one or more (filter, options)
RECURSIVE SubFilters(_, _, _, _)
SubFilters(bs, i, e, acc) ==
  IF i > e THEN [st |-> "ok", fs |-> acc]
  ELSE LET f == Lp(bs, i) IN
    IF f.st # "ok" \/ i + f.n > e THEN Bad
    ELSE LET o == bs[i + f.n] IN
      IF ~Utf8Ok(f.v) \/ o >= 64 \/ o % 4 = 3 \/ (o \div 16) % 4 = 3 THEN Bad
      ELSE SubFilters(bs, i + f.n + 1, e,
                      Append(acc, [topic |-> f.v, qos |-> o % 4, nl |-> (o \div 4) % 2,
                                   rap |-> (o \div 8) % 2, rh |-> (o \div 16) % 4]))

RECURSIVE UnsubTopics(_, _, _, _)
UnsubTopics(bs, i, e, acc) ==
  IF i > e THEN [st |-> "ok", ts |-> acc]
  ELSE LET f == Lp(bs, i) IN
    IF f.st # "ok" \/ i + f.n - 1 > e \/ ~Utf8Ok(f.v) THEN Bad
    ELSE UnsubTopics(bs, i + f.n, e, Append(acc, f.v))

DecSubscribe(bs, i, e, t) ==
  IF e - i + 1 < 3 THEN Bad
  ELSE LET id == U16(bs, i)  pb == PropBlock(bs, i + 2, e) IN
    IF pb.st # "ok" THEN Bad
    ELSE IF ~PropsAllowed(pb.props, t) \/ ~PropsNoDup(pb.props, {38}) \/ ~PropsValuesOk(pb.props) THEN Bad
    ELSE IF id = 0 THEN Bad
    ELSE LET c == i + 2 + pb.n IN
      IF c > e THEN Bad                                      \* no filter at all
      ELSE IF t = SUBSCRIBE THEN
             LET r == SubFilters(bs, c, e, << >>) IN
             IF r.st # "ok" THEN Bad
             ELSE [st |-> "ok", t |-> t, id |-> id, props |-> pb.props, filters |-> r.fs]
           ELSE
             LET r == UnsubTopics(bs, c, e, << >>) IN
             IF r.st # "ok" THEN Bad
             ELSE [st |-> "ok", t |-> t, id |-> id, props |-> pb.props, topics |-> r.ts]

(***************************************************************************)
(* DecClient(bs): strict verdict on exactly one framed client packet.        *)
(* `flraw` keeps the raw flag nibble so that callers can recognise a known   *)
(* deviation precisely (see the KF_ operators in Props).                                     *)
(***************************************************************************)
DecClientBody(bs, t, fl, i, e) ==
  IF t = CONNECT THEN DecConnect(bs, i, e)
  ELSE IF t = PUBLISH THEN
       LET p == DecPublish(bs, i, e, fl) IN
       IF p.st # "ok" THEN Bad
       ELSE IF ~PropsAllowed(p.props, PUBLISH) \/ HasProp(p.props, 11) THEN Bad
       ELSE IF ~PropsNoDup(p.props, {38}) \/ ~PropsValuesOk(p.props) THEN Bad
       ELSE IF p.q = 0 /\ p.dup = 1 THEN Bad
       ELSE IF p.q > 0 /\ p.id = 0 THEN Bad
       ELSE p
  ELSE IF t \in {PUBACK, PUBREC, PUBREL, PUBCOMP} THEN
       LET a == AckBody(bs, i, e, t) IN
       IF a.st # "ok" THEN Bad
       ELSE IF a.id = 0 THEN Bad
       ELSE IF ~PropsAllowed(a.props, t) \/ ~PropsNoDup(a.props, {38}) THEN Bad
       ELSE a
  ELSE IF t \in {SUBSCRIBE, UNSUBSCRIBE} THEN DecSubscribe(bs, i, e, t)
  ELSE IF t = PINGREQ THEN IF e < i THEN [st |-> "ok", t |-> PINGREQ] ELSE Bad
  ELSE IF t = DISCONNECT THEN
       LET d == DecDisconnect(bs, i, e) IN
       IF d.st # "ok" THEN Bad
       ELSE IF ~PropsAllowed(d.props, DISCONNECT) \/ ~PropsNoDup(d.props, {38}) THEN Bad
       ELSE d
  ELSE Bad        \* AUTH: this client never uses enhanced authentication

DecClient(bs) ==
  LET f == Frame(bs) IN
  IF f.st # "ok" \/ f.len # Len(bs) THEN Bad
  ELSE LET t == bs[1] \div 16  fl == bs[1] % 16 IN
    IF t \notin ClientMaySend THEN Bad
    ELSE IF ~FlagsLegal(t, fl) THEN [st |-> "badflags", t |-> t, fl |-> fl]
    ELSE DecClientBody(bs, t, fl, f.hdr + 1, Len(bs))

\* same, but with the fixed-header flags check skipped (used to look inside a packet whose
\* only defect is its flag nibble)
DecClientLax(bs) ==
  LET f == Frame(bs) IN
  IF f.st # "ok" \/ f.len # Len(bs) THEN Bad
  ELSE LET t == bs[1] \div 16 IN
    IF t \notin ClientMaySend THEN Bad
    ELSE DecClientBody(bs, t, IF t = PUBLISH THEN bs[1] % 16 ELSE 0, f.hdr + 1, Len(bs))

(***************************************************************************)
(* Encoders for server packets and for client requests (round-trip lemmas,  *)
(* expected wire images).                                                    *)
(***************************************************************************)
Framed(t, fl, body) == << t * 16 + fl >> \o EncVarint(Len(body)) \o body

EncPublish(q, dup, rt, topic, id, props, payload) ==
  Framed(PUBLISH, dup * 8 + q * 2 + rt,
         EncLp(topic) \o (IF q > 0 THEN EncU16(id) ELSE << >>) \o EncPropBlock(props) \o payload)

EncAck(t, id, rc) == Framed(t, IF t = PUBREL THEN 2 ELSE 0, EncU16(id) \o << rc >>)

=============================================================================
