------------------------------- MODULE Quota -------------------------------
(***************************************************************************)
(* The send-quota arithmetic of the client (session/state.rs                 *)
(* release_send_quota, operations.rs publish, inbound.rs PUBACK / PUBREC /     *)
(* PUBCOMP, handshake.rs CONNACK) with the counters UNBOUNDED: the number of   *)
(* unresolved publishes and the window are arbitrary naturals.  TLC checks     *)
(* Minimq.tla's Inv_Usable / Inv_C06_quota for windows {1, 2, 3}; this module   *)
(* states the same arithmetic alone so that Apalache can show the invariant      *)
(* INDUCTIVE, i.e. for every window size and every history (IndInit / Next).      *)
(*                                                                          *)
(*   ret  : retained QoS 1/2 PUBLISH packets (unacknowledged)                   *)
(*   rel  : QoS 2 exchanges past PUBREC waiting for PUBCOMP                      *)
(*   quota, maxq : send_quota, max_send_quota                                   *)
(*   local : the local limit (8 slots)                                          *)
(***************************************************************************)
EXTENDS Integers

CONSTANT
  \* @type: Int;
  Local

VARIABLES
  \* @type: Int;
  ret,
  \* @type: Int;
  rel,
  \* @type: Int;
  quota,
  \* @type: Int;
  maxq

Min(a, b) == IF a < b THEN a ELSE b
Sat(a) == IF a < 0 THEN 0 ELSE a
Unres == ret + rel
\* release_send_quota(unresolved) after the entry has been removed
Release(u) == Min(quota + 1, Sat(maxq - u))

ConstInit == Local \in 1..16

Init == ret = 0 /\ rel = 0 /\ quota = Local /\ maxq = Local

\* publish QoS 1/2 accepted: a slot, quota available
Publish ==
  /\ quota > 0 /\ ret + 1 <= Local
  /\ ret' = ret + 1 /\ quota' = quota - 1 /\ UNCHANGED << rel, maxq >>
\* PUBACK, or PUBREC with a failure code: the exchange ends
AckEnd ==
  /\ ret > 0
  /\ ret' = ret - 1 /\ quota' = Release(ret - 1 + rel) /\ UNCHANGED << rel, maxq >>
\* successful PUBREC: the exchange moves on, the quota stays taken
PubRec ==
  /\ ret > 0 /\ rel + 1 <= Local
  /\ ret' = ret - 1 /\ rel' = rel + 1 /\ UNCHANGED << quota, maxq >>
PubComp ==
  /\ rel > 0
  /\ rel' = rel - 1 /\ quota' = Release(ret + rel - 1) /\ UNCHANGED << ret, maxq >>
\* CONNACK with session present: Receive Maximum rm (any value >= 1), everything unresolved is replayed
Resume ==
  \E rm \in 1..65535 :
    /\ maxq' = Min(rm, Local) /\ quota' = Sat(Min(rm, Local) - Unres) /\ UNCHANGED << ret, rel >>
\* CONNACK without session: local state is discarded first
Fresh ==
  \E rm \in 1..65535 :
    /\ ret' = 0 /\ rel' = 0 /\ maxq' = Min(rm, Local) /\ quota' = Min(rm, Local)

Next == Publish \/ AckEnd \/ PubRec \/ PubComp \/ Resume \/ Fresh

\* the window is never exceeded by new publishes and never under-used
Usable == quota = Sat(maxq - Unres)
TypeOK == ret >= 0 /\ rel >= 0 /\ quota >= 0 /\ maxq >= 1 /\ maxq <= Local /\ ret <= Local /\ rel <= Local
IndInv == TypeOK /\ Usable
\* a new publish is accepted only inside the window (C06), and refused only when it is full (C12 / C17)
Window == (quota > 0) <=> (Unres < maxq)

IndInit == ret \in Nat /\ rel \in Nat /\ quota \in Nat /\ maxq \in Nat /\ IndInv
=============================================================================
