------------------------------- MODULE Quota -------------------------------
(***************************************************************************)
(* The send-quota arithmetic of the client (session/state.rs                 *)
(* release_send_quota, operations.rs publish, inbound.rs PUBACK / PUBREC /     *)
(* PUBCOMP, handshake.rs CONNACK) with the counters UNBOUNDED: the number of   *)
(* unresolved publishes and the window are arbitrary naturals.  TLC checks     *)
(* Minimq.tla's Inv_Usable / Inv_C06_quota for windows {1, 2, 3}; this module   *)
(* states the same arithmetic alone so that Apalache can show the invariant      *)
(* INDUCTIVE, i.e. for every window size and every history (IndInit / Next).      *)
(*                                                                          *)
(*   ret  : retained QoS 1/2 PUBLISH packets (unacknowledged)                   *)
(*   rel  : QoS 2 exchanges past PUBREC waiting for PUBCOMP                      *)
(*   quota, maxq : send_quota, max_send_quota                                   *)
(*   local : the local limit (8 slots)                                          *)
(***************************************************************************)
EXTENDS Integers

CONSTANTS
  \* @type: Int;
  Local,
  \* the largest Receive Maximum a CONNACK may carry (65535; the bounded instance in MC_flow uses Cap)
  \* @type: Int;
  RMax

VARIABLES
  \* @type: Int;
  ret,
  \* @type: Int;
  rel,
  \* @type: Int;
  quota,
  \* @type: Int;
  maxq,
  \* a connection is active (CONNACK accepted, no disconnect seen since)
  \* @type: Bool;
  live

Min(a, b) == IF a < b THEN a ELSE b
Sat(a) == IF a < 0 THEN 0 ELSE a
Unres == ret + rel
\* release_send_quota(unresolved) after the entry has been removed
Release(u) == Min(quota + 1, Sat(maxq - u))

ConstInit == Local \in 1..16 /\ RMax = 65535

Init == ret = 0 /\ rel = 0 /\ quota = Local /\ maxq = Local /\ live = FALSE

\* publish QoS 1/2 accepted: a slot, quota available
Publish ==
  /\ live /\ quota > 0 /\ ret + 1 <= Local
  /\ ret' = ret + 1 /\ quota' = quota - 1 /\ UNCHANGED << rel, maxq, live >>
\* PUBACK, or PUBREC with a failure code: the exchange ends
AckEnd ==
  /\ live /\ ret > 0
  /\ ret' = ret - 1 /\ quota' = Release(ret - 1 + rel) /\ UNCHANGED << rel, maxq, live >>
\* successful PUBREC: the exchange moves on, the quota stays taken
PubRec ==
  /\ live /\ ret > 0 /\ rel + 1 <= Local
  /\ ret' = ret - 1 /\ rel' = rel + 1 /\ UNCHANGED << quota, maxq, live >>
PubComp ==
  /\ live /\ rel > 0
  /\ rel' = rel - 1 /\ quota' = Release(ret + rel - 1) /\ UNCHANGED << ret, maxq, live >>
\* CONNACK with session present: Receive Maximum rm (any value >= 1), everything unresolved is replayed
Resume ==
  \E rm \in 1..RMax :
    /\ ~live /\ live' = TRUE
    /\ maxq' = Min(rm, Local) /\ quota' = Sat(Min(rm, Local) - Unres) /\ UNCHANGED << ret, rel >>
\* CONNACK without session: local state is discarded first
Fresh ==
  \E rm \in 1..RMax :
    /\ ~live /\ live' = TRUE
    /\ ret' = 0 /\ rel' = 0 /\ maxq' = Min(rm, Local) /\ quota' = Min(rm, Local)
\* the connection ends (the counters keep their values until the next CONNACK)
Drop == live /\ live' = FALSE /\ UNCHANGED << ret, rel, quota, maxq >>
\* a success CONNACK without session whose properties are refused: local state is discarded, nothing
\* is activated
Refused == ~live /\ ret' = 0 /\ rel' = 0 /\ UNCHANGED << quota, maxq, live >>

Next == Publish \/ AckEnd \/ PubRec \/ PubComp \/ Resume \/ Fresh \/ Drop \/ Refused

\* the window is never exceeded by new publishes and never under-used
Usable == quota = Sat(maxq - Unres)
TypeOK == ret >= 0 /\ rel >= 0 /\ quota >= 0 /\ maxq >= 1 /\ maxq <= Local /\ ret <= Local /\ rel <= Local
IndInv == TypeOK /\ (live => Usable)
\* a new publish is accepted only inside the window (C06), and refused only when it is full (C12 / C17)
Window == live => ((quota > 0) <=> (Unres < maxq))

IndInit == ret \in Nat /\ rel \in Nat /\ quota \in Nat /\ maxq \in Nat /\ live \in BOOLEAN /\ IndInv
=============================================================================
