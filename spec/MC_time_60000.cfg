SPECIFICATION Spec
CONSTANTS
  K = 60000
  UNIT = 5000
  MaxT = 200000
  Dev = {}
  Record = FALSE
INVARIANTS Inv_C10 Inv_C10_timer Inv_C10_detect Inv_C10_zero
CHECK_DEADLOCK FALSE
