-------------------------------- MODULE Arena --------------------------------
(***************************************************************************)
(* The transmit arena (src/mqtt_client/outbound.rs: buf, used, retained,      *)
(* compact, encode_publish / encode_packet, retain_packet, ack_packet,         *)
(* scratch_space; src/ser/mod.rs finalize: five bytes are reserved for the      *)
(* fixed header and the real header is written right-aligned in front of the     *)
(* body, which leaves a gap of 5 - hdr bytes before a freshly encoded packet).    *)
(*                                                                          *)
(* Cells are modelled by OWNER TAGS instead of byte values: cell c holds         *)
(* << id, k >> when it is byte k of retained packet id, Scratch when scratch users *)
(* (QoS 0 publish, CONNECT) wrote it, Free when never written.  That makes "the bytes of an   *)
(* unacknowledged packet are never altered" a plain invariant.                     *)
(***************************************************************************)
EXTENDS Naturals, Sequences, TLC

CONSTANTS CAP,      \* arena length in bytes
          Lens,     \* total lengths of retained packets explored (>= 7)
          QLens,    \* total lengths of scratch (QoS 0) packets explored
          MaxRet,   \* retained slots (8 in the code)
          MaxOps,
          ConnLen,  \* total length of this session's CONNECT packet
          Dev,      \* deviations: "scratch_no_compact", "ack_no_compact", "offset_relative", "encode_no_compact", "ack_swap_remove"
          Record

VARIABLES buf,      \* [0..CAP-1 -> tag]
          used,
          ret,      \* sequence of [id, off, len]
          nid,
          ops,
          last,     \* result of the last operation
          hist

vars == << buf, used, ret, nid, ops, last, hist >>

\* tags that are not bytes of a retained packet (identifiers start at 1)
Free == << 0, 0 >>
Scratch == << 0, 1 >>

Hdr(len) == IF len - 2 < 128 THEN 2 ELSE 3        \* fixed header bytes of a packet of total length len (< 16 KiB)
Max(a, b) == IF a > b THEN a ELSE b
SumLen(r) == IF r = << >> THEN 0 ELSE LET f[i \in 0..Len(r)] == IF i = 0 THEN 0 ELSE f[i - 1] + r[i].len IN f[Len(r)]

\* compact(): slide every retained packet down to the end of its predecessor (memmove semantics)
RECURSIVE CompactFrom(_, _, _, _)
CompactFrom(b, r, i, cursor) ==
  IF i > Len(r) THEN << b, r, cursor >>
  ELSE LET e == r[i] IN
       IF e.off = cursor THEN CompactFrom(b, r, i + 1, cursor + e.len)
       ELSE LET b2 == [c \in DOMAIN b |-> IF c >= cursor /\ c < cursor + e.len THEN b[e.off + (c - cursor)] ELSE b[c]]
            IN CompactFrom(b2, [r EXCEPT ![i].off = cursor], i + 1, cursor + e.len)

Compact(b, r) == CompactFrom(b, r, 1, 0)

Log(a, p) == IF Record THEN Append(hist, [a |-> a, p |-> p, r |-> last',
                                           ret |-> [i \in 1..Len(ret') |-> << ret'[i].id, ret'[i].off, ret'[i].len >>],
                                           used |-> used']) ELSE hist

Init ==
  /\ buf = [c \in 0..(CAP - 1) |-> Free] /\ used = 0 /\ ret = << >> /\ nid = 1 /\ ops = 0
  /\ last = "init" /\ hist = << >>

\* can_retain / can_publish(QoS 0): a slot and at least a fixed header's worth of scratch space
ScratchLen == CAP - SumLen(ret)

\* publish QoS 1 (subscribe, unsubscribe alike): identifier, slot / space gates, encode behind the
\* compacted prefix, retain
Pub(len) ==
  /\ ops < MaxOps /\ ops' = ops + 1
  /\ nid' = nid + 1
  /\ IF Len(ret) >= MaxRet THEN
       /\ last' = "InflightExhausted" /\ UNCHANGED << buf, used, ret >>
     ELSE IF ScratchLen < 5 THEN
       /\ last' = "NotReady" /\ UNCHANGED << buf, used, ret >>
     ELSE
       LET cp == IF "encode_no_compact" \in Dev THEN << buf, ret, used >> ELSE Compact(buf, ret)
           b1 == cp[1]  r1 == cp[2]  start == cp[3]
           body == len - Hdr(len)
           off == IF "offset_relative" \in Dev THEN 5 - Hdr(len) ELSE start + 5 - Hdr(len) IN
       IF start + 5 + body > CAP THEN
         /\ last' = "BufferTooSmall" /\ buf' = b1 /\ ret' = r1 /\ used' = start
       ELSE
         /\ buf' = [c \in DOMAIN b1 |-> IF c >= off /\ c < off + len THEN << nid, c - off >> ELSE b1[c]]
         /\ ret' = Append(r1, [id |-> nid, off |-> off, len |-> len])
         /\ used' = Max(start, off + len)
         /\ last' = "ok"
  /\ hist' = Log("pub", len)

\* QoS 0 publish: encode into scratch_space() and write from there
Q0(len) ==
  /\ ops < MaxOps /\ ops' = ops + 1
  /\ UNCHANGED nid
  /\ IF ScratchLen < 5 THEN
       /\ last' = "NotReady" /\ UNCHANGED << buf, used, ret >>
     ELSE
       LET cp == IF "scratch_no_compact" \in Dev THEN << buf, ret, SumLen(ret) >> ELSE Compact(buf, ret)
           b1 == cp[1]  r1 == cp[2]  start == cp[3]
           body == len - Hdr(len)
           off == start + 5 - Hdr(len) IN
       IF start + 5 + body > CAP THEN
         /\ last' = "BufferTooSmall" /\ buf' = b1 /\ ret' = r1
         /\ used' = IF "scratch_no_compact" \in Dev THEN used ELSE start
       ELSE
         /\ buf' = [c \in DOMAIN b1 |-> IF c >= off /\ c < off + len THEN Scratch ELSE b1[c]]
         /\ ret' = r1
         /\ used' = IF "scratch_no_compact" \in Dev THEN used ELSE start
         /\ last' = "ok"
  /\ hist' = Log("q0", len)

\* the acknowledgement of retained packet i arrives: remove + compact
Ack(i) ==
  /\ i \in 1..Len(ret)
  /\ LET r0 == IF "ack_swap_remove" \in Dev /\ i < Len(ret)
               THEN SubSeq(ret, 1, i - 1) \o << ret[Len(ret)] >> \o SubSeq(ret, i + 1, Len(ret) - 1)
               ELSE SubSeq(ret, 1, i - 1) \o SubSeq(ret, i + 1, Len(ret))
         cp == IF "ack_no_compact" \in Dev THEN << buf, r0, used >> ELSE Compact(buf, r0) IN
     /\ buf' = cp[1] /\ ret' = cp[2] /\ used' = cp[3]
  /\ last' = "ok"
  /\ hist' = Log("ack", ret[i].id)
  /\ UNCHANGED << nid, ops >>

\* the connection is lost and re-established: CONNECT is encoded in scratch_space() (if it fits there;
\* otherwise the receive buffer is used and the arena is only compacted); a broker without the session
\* makes the client clear the arena
Reconn(sp) ==
  /\ ops < MaxOps /\ ops' = ops + 1
  /\ LET cp == Compact(buf, ret)  b1 == cp[1]  r1 == cp[2]  start == cp[3]
         body == ConnLen - Hdr(ConnLen)
         off == start + 5 - Hdr(ConnLen)
         b2 == IF start + 5 + body > CAP THEN b1
               ELSE [c \in DOMAIN b1 |-> IF c >= off /\ c < off + ConnLen THEN Scratch ELSE b1[c]] IN
     /\ buf' = b2
     /\ IF sp THEN ret' = r1 /\ used' = start /\ UNCHANGED nid
              ELSE ret' = << >> /\ used' = 0 /\ nid' = 1
  /\ last' = "ok"
  /\ hist' = Log("reconn", IF sp THEN 1 ELSE 0)

Next == (\E l \in Lens : Pub(l)) \/ (\E l \in QLens : Q0(l)) \/ (\E i \in 1..MaxRet : Ack(i))
        \/ Reconn(TRUE) \/ Reconn(FALSE)
Spec == Init /\ [][Next]_vars

\* ---- C17 -------------------------------------------------------------------------------------
\* every retained packet still holds exactly its own bytes, in order
Inv_C17_intact ==
  \A i \in 1..Len(ret) : \A k \in 0..(ret[i].len - 1) :
     ret[i].off + k \in DOMAIN buf /\ buf[ret[i].off + k] = << ret[i].id, k >>
\* retained packets are ordered, disjoint, inside the used prefix, inside the arena
Inv_C17_layout ==
  /\ \A i \in 1..Len(ret) : ret[i].off + ret[i].len <= used /\ used <= CAP
  /\ \A i \in 1..(Len(ret) - 1) : ret[i].off + ret[i].len <= ret[i + 1].off
\* ---- what the next request would be answered, as the code computes it: the slot / scratch gates look
\* at the retained packets only, the encoder starts at `used` after compact() -----------------------------
StartNow == IF "encode_no_compact" \in Dev THEN used ELSE Compact(buf, ret)[3]
PubAnswer(len) ==
  IF Len(ret) >= MaxRet THEN "InflightExhausted" ELSE IF ScratchLen < 5 THEN "NotReady"
  ELSE IF StartNow + 5 + (len - Hdr(len)) > CAP THEN "BufferTooSmall" ELSE "ok"
FreshAnswer(len) == IF 5 + (len - Hdr(len)) > CAP THEN "BufferTooSmall" ELSE "ok"
\* capacity is fully recovered: once nothing is retained every request is answered as by a new session
Inv_C17_recover == ret = << >> => \A l \in Lens \cup QLens \cup {CAP - 3, CAP - 2} : PubAnswer(l) = FreshAnswer(l)
\* and in general the answer depends on what is retained, not on the history that led there
Inv_C17_free == \A l \in Lens \cup QLens :
                  PubAnswer(l) = "BufferTooSmall" <=> (Len(ret) < MaxRet /\ ScratchLen >= 5 /\ SumLen(ret) + 5 + (l - Hdr(l)) > CAP)
=============================================================================
