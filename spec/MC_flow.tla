------------------------------ MODULE MC_flow ------------------------------
(***************************************************************************)
(* Model-checking instance of Minimq: the listed properties as invariants  *)
(* over the client/environment automaton.                                   *)
(***************************************************************************)
EXTENDS Minimq

Quiescent(cl) == cl.ret = << >> /\ cl.rel = << >> /\ cl.ctl = << >>

\* ---- C01: the outbound byte stream is whole packets -----------------------------------
\* D2 (open): a disconnect() dropped after part of its DISCONNECT was written
Inv_C01 == ~n.bad

\* ---- C02 / C03: accepted publishes are kept, sent once per connection, in order ---------
Held(m) == (\E i \in 1..Len(c.ret) : c.ret[i].m = m)
           \/ (o.ops[m].k = "P2" /\ \E i \in 1..Len(c.rel) : c.rel[i].id = o.ops[m].id)
Live(m) == o.ops[m].acc /\ o.ops[m].epoch = o.epoch /\ o.ops[m].ph # "done"
Inv_C02 ==
  /\ ~o.twice /\ ~o.afterack /\ ~o.wrongdup /\ ~o.order
  /\ \A m \in 1..Len(o.ops) : (Live(m) /\ o.ops[m].k = "P1") => Held(m)
Inv_C03 ==
  /\ ~o.relbad /\ ~o.relorder
  /\ \A m \in 1..Len(o.ops) : (Live(m) /\ o.ops[m].k = "P2") => Held(m)
  \* PUBREL is owed exactly for exchanges whose successful PUBREC was consumed
  /\ \A i \in 1..Len(c.rel) : \E m \in 1..Len(o.ops) :
        o.ops[m].k = "P2" /\ o.ops[m].id = c.rel[i].id /\ o.ops[m].ph = "rec" /\ o.ops[m].epoch = o.epoch

\* ---- C05: fresh vs resumed session ---------------------------------------------------------
Inv_C05 ==
  /\ ~o.stale /\ ~o.newfirst
  /\ \A m \in 1..Len(o.ops) : (Live(m) /\ o.ops[m].k \in {"SUB", "UNS"}) => Held(m)
  /\ \A i \in 1..Len(c.ret) : o.ops[c.ret[i].m].epoch = o.epoch        \* nothing from before a fresh session

\* ---- C06: Receive Maximum ----------------------------------------------------------------------
\* D5b (open): the replay itself exceeds a lowered Receive Maximum (b.overreplay)
Inv_C06 == ~b.over
Inv_C06_quota == c.live => c.quota + Unresolved(c) <= c.maxq \/ b.overreplay \/ c.quota = 0
\* and the window is never under-used: a live connection's quota is exactly what the window leaves free
\* (so a publish is refused with NotReady only when the window is full) -- "fully usable", C12 / C17
Inv_Usable == c.live => c.quota = Sat(c.maxq - Unresolved(c))

\* The send-quota arithmetic of this model is an instance of spec/Quota.tla (whose invariant Apalache
\* shows inductive for all window sizes): every step of Minimq either leaves the four counters alone or
\* is a step of Quota under this mapping.  Before the first CONNACK the counters are at the local limit.
Q == INSTANCE Quota WITH Local <- Cap, RMax <- Cap,
                         ret <- Cardinality({i \in 1..Len(c.ret) : IsPubKind(c.ret[i].k)}),
                         rel <- Len(c.rel), quota <- c.quota, maxq <- c.maxq, live <- c.live
QuotaRefines == [][Q!Next]_<< Cardinality({i \in 1..Len(c.ret) : IsPubKind(c.ret[i].k)}), Len(c.rel), c.quota, c.maxq, c.live >>

\* ---- C07: identifiers in flight are distinct and non-zero -------------------------------------------
InFlightIds == [i \in 1..(Len(c.ret) + Len(c.rel)) |->
                  IF i <= Len(c.ret) THEN c.ret[i].id ELSE c.rel[i - Len(c.ret)].id]
Inv_C07 ==
  /\ ~o.idclash
  /\ \A i, j \in DOMAIN InFlightIds : i # j => InFlightIds[i] # InFlightIds[j]
  /\ \A i \in DOMAIN InFlightIds : InFlightIds[i] \in 1..IdMax

\* ---- C11: a dead handle performs no I/O -----------------------------------------------------------------
Inv_C11 == c.pc.t \in {"aw", "af", "ar", "dw", "df", "qw", "qf"} => c.live /\ c.up

\* ---- C12: the session can always be reconnected ------------------------------------------------------------
ConnectHealthy(cl, sp) ==
  ConnAckIn([StartConnect(cl) EXCEPT !.pc = [t |-> "cr"]], [t |-> "CONNACK", sp |-> sp, rc |-> 0, rm |-> Cap])
Inv_C12 ==
  NoHandle => \A sp \in BOOLEAN :
     LET r == ConnectHealthy(c, sp) IN
     /\ r.up /\ r.live /\ r.last.k = "ok"
     /\ \A i \in 1..Len(r.ret) : r.ret[i].st = "W" /\ r.ret[i].w = 0      \* nothing half-sent is carried over
     /\ \A i \in 1..Len(r.rel) : r.rel[i].st = "W" /\ r.rel[i].w = 0
     /\ \A i \in 1..Len(r.ctl) : r.ctl[i].st = "W" /\ r.ctl[i].w = 0

\* ---- C16: a benign continuation completes everything ----------------------------------------------------------
Answer(what) ==
  CASE what[1] = "P1" -> << [t |-> "PUBACK", id |-> what[2], rc |-> 0] >>
    [] what[1] = "P2" -> << [t |-> "PUBREC", id |-> what[2], rc |-> 0] >>
    [] what[1] = "PUBREL" -> << [t |-> "PUBCOMP", id |-> what[2], rc |-> 0] >>
    [] what[1] = "SUB" -> << [t |-> "SUBACK", id |-> what[2], rc |-> 0] >>
    [] what[1] = "UNS" -> << [t |-> "UNSUBACK", id |-> what[2], rc |-> 0] >>
    [] what[1] = "PUBREC" /\ what[3] < 128 -> << [t |-> "PUBREL", id |-> what[2], rc |-> 0] >>
    [] OTHER -> << >>

PollOp == [nm |-> "poll", k |-> "", m |-> 0, ph |-> "", id |-> 0, adv |-> FALSE]

RECURSIVE Drain(_, _, _)
Drain(cl, inbox, fuel) ==
  IF fuel = 0 THEN FALSE
  ELSE IF cl.pc = Idle THEN
       \* the connection was lost to something already in flight: reconnect, session present
       IF ~cl.live THEN Drain(ConnectHealthy([cl EXCEPT !.up = FALSE], cl.sp), << >>, fuel - 1)
       ELSE IF Quiescent(cl) /\ inbox = << >> THEN TRUE
       ELSE Drain(CallOp(cl, PollOp), inbox, fuel - 1)
  ELSE IF cl.pc.t = "aw" THEN
       Drain([SetState(cl, cl.pc.s, "F", 0) EXCEPT !.pc = [t |-> "af", op |-> cl.pc.op, s |-> cl.pc.s]],
             inbox \o Answer(What(cl, cl.pc.s)), fuel - 1)
  ELSE IF cl.pc.t = "af" THEN
       Drain(Eng(FlushDone(cl, cl.pc.s), [cl.pc.op EXCEPT !.adv = TRUE]), inbox, fuel - 1)
  ELSE IF cl.pc.t = "ar" THEN
       IF inbox = << >> THEN Quiescent(cl)
       ELSE Drain(AfterPacket(cl, cl.pc.op, Head(inbox)), Tail(inbox), fuel - 1)
  ELSE FALSE

\* answers the benign broker still owes on this connection
RECURSIVE SetToSeq(_)
SetToSeq(S) == IF S = {} THEN << >> ELSE LET x == CHOOSE x \in S : TRUE IN << x >> \o SetToSeq(S \ {x})
OwedAnswers ==
  LET G == SetToSeq(b.got) IN
  [i \in 1..Len(G) |->
     [t |-> CASE G[i][1] = "P1" -> "PUBACK" [] G[i][1] = "P2" -> "PUBREC" [] G[i][1] = "PUBREL" -> "PUBCOMP"
              [] G[i][1] = "SUB" -> "SUBACK" [] OTHER -> "UNSUBACK",
      id |-> G[i][2], rc |-> 0]]
BrokerOwesRelease ==
  LET R == SetToSeq({x \in b.inq : x.q = 2 /\ x.ph = "rec"}) IN
  [i \in 1..Len(R) |-> [t |-> "PUBREL", id |-> R[i].id, rc |-> 0]]

DrainOK ==
  IF c.up /\ c.live
  THEN Drain(c, n.b2c \o OwedAnswers \o BrokerOwesRelease, 80)
  ELSE \* reconnect; the broker answers session-present iff it has the session
       Drain(ConnectHealthy([c EXCEPT !.up = FALSE], b.sess /\ c.sp), << >>, 80)

\* D12-like carve-out is not needed here (no Maximum Packet Size in the flow model)
Inv_C16 == (c.pc = Idle /\ ~n.dcan) => DrainOK

\* ---- C18: operation handles tell the truth ------------------------------------------------------------------------
Status(m) ==
  LET r == o.ops[m] IN
  IF r.gen # c.gen THEN "i"
  ELSE IF FindRet(c, r.id) # 0 \/ (r.k = "P2" /\ FindRel(c, r.id) # 0) THEN "p" ELSE "c"
Truth(m) ==
  LET r == o.ops[m] IN IF r.epoch # o.epoch THEN "i" ELSE IF r.ph = "done" THEN "c" ELSE "p"
\* D15 (open): a handle is (kind, identifier, generation); once the identifier counter has wrapped,
\* a completed handle aliases a later operation with the same identifier and reports pending again
Aliased(m) ==
  /\ Truth(m) = "c" /\ Status(m) = "p"
  /\ \E j \in 1..Len(o.ops) : j # m /\ Live(j) /\ o.ops[j].id = o.ops[m].id /\ o.ops[j].gen = o.ops[m].gen
Inv_C18 == \A m \in 1..Len(o.ops) : o.ops[m].h => (Status(m) = Truth(m) \/ Aliased(m))

\* c.last is written when a call returns and read only within that same step (Track)
View == << [c EXCEPT !.last = 0], n, b, o >>

\* C04: an inbound QoS 2 identifier is on record only if its message was handed to the application
Inv_C04 == c.sids \subseteq o.got2

\* sanity: queue capacities are respected
Inv_Caps == Len(c.ret) <= Cap /\ Len(c.rel) <= Cap /\ Len(c.ctl) <= CtlCap /\ c.quota <= c.maxq
=============================================================================
