SPECIFICATION Spec
CONSTANTS
  MaxOps = 4
  MaxConns = 3
  IdMax = 60
  Cap = 8
  CtlCap = 8
  RMs = {1, 2, 8, 20}
  MaxIn = 3
  MaxFail = 2
  MaxQ0 = 1
  Kinds = {"P1", "P2", "SUB", "UNS"}
  Parts = {TRUE, FALSE}
  MaxCancel = 3
  MaxFault = 2
  Zeros = TRUE
  Dev = {}
  Record = TRUE
INVARIANTS
  Emit Inv_C01 Inv_C02 Inv_C03 Inv_C05 Inv_C06 Inv_C07 Inv_C11 Inv_C18
ACTION_CONSTRAINT Steer
CHECK_DEADLOCK FALSE
