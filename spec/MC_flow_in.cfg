SPECIFICATION Spec
CONSTANTS
  MaxOps = 1
  MaxConns = 2
  IdMax = 3
  Cap = 2
  CtlCap = 2
  RMs = {2}
  MaxIn = 2
  MaxFail = 1
  MaxQ0 = 0
  Kinds = {"P2"}
  Parts = {TRUE, FALSE}
  MaxCancel = 1
  MaxFault = 1
  Zeros = FALSE
  Dev = {}
  Record = FALSE
VIEW View
INVARIANTS
  Inv_Usable
  Inv_C04 Inv_C01 Inv_C02 Inv_C03 Inv_C05 Inv_C06 Inv_C07 Inv_C11 Inv_C12 Inv_C16 Inv_C18 Inv_Caps
CHECK_DEADLOCK FALSE
