------------------------------- MODULE MC_sim -------------------------------
(* Behaviour generation: TLC simulates Minimq with the decision history switched on and prints  *)
(* the history at every call boundary; tools/replay.py keeps the longest history per behaviour, *)
(* turns it into a transport/broker/application schedule and runs it against the real crate.   *)
EXTENDS MC_flow, Json

Emit == (c.pc = Idle /\ hist # << >>) =>
          PrintT("@H " \o ToString(TLCGet("stats").traces) \o " " \o ToJson(hist))
\* Steering of the random walk (ACTION_CONSTRAINT): behaviours that die before anything is in flight
\* teach nothing, so (1) no fault or cancellation before the first successful connect, (2) a live
\* handle is only dropped or disconnected while something is in flight.
Steer ==
  /\ (~c.sp /\ n.conn <= 1) => (n'.faults = n.faults /\ n'.cancels = n.cancels)
  /\ (c.up /\ ~c'.up /\ c.live) => ~Quiescent(c)
  /\ (c.pc = Idle /\ c'.pc # Idle /\ c'.pc.t \in {"dw"}) => ~Quiescent(c)
=============================================================================
