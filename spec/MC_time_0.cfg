SPECIFICATION Spec
CONSTANTS
  K = 0
  Ks = {0}
  MaxConn = 1
  UNIT = 250
  MaxT = 7000
  Dev = {}
  Record = FALSE
INVARIANTS Inv_C10 Inv_C10_timer Inv_C10_detect Inv_C10_zero Inv_C10_queue
CHECK_DEADLOCK FALSE
