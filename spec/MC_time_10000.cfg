SPECIFICATION Spec
CONSTANTS
  K = 10000
  Ks = {10000}
  MaxConn = 1
  UNIT = 1000
  MaxT = 37000
  Dev = {}
  Record = FALSE
INVARIANTS Inv_C10 Inv_C10_timer Inv_C10_detect Inv_C10_zero Inv_C10_queue
CHECK_DEADLOCK FALSE
