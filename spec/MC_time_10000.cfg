SPECIFICATION Spec
CONSTANTS
  K = 10000
  UNIT = 1000
  MaxT = 37000
  Dev = {}
  Record = FALSE
INVARIANTS Inv_C10 Inv_C10_timer Inv_C10_detect Inv_C10_zero
CHECK_DEADLOCK FALSE
