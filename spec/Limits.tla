------------------------------- MODULE Limits -------------------------------
(***************************************************************************)
(* The broker's Maximum Packet Size as the minimq client applies it          *)
(* (session/operations.rs publish, session/state.rs require_packet_size,     *)
(* session/drive.rs perform_outbound_step / flush_outbound,                  *)
(* session/inbound.rs check_control_packet_size, outbound.rs next_step).     *)
(*                                                                          *)
(* Packets are lengths.  The transport takes everything at once, the broker   *)
(* acknowledges everything it receives; what is in flight when a connection    *)
(* is dropped is lost with it.  One limit (or none) holds per connection; the  *)
(* next CONNACK may announce another.  Every operation starts by flushing      *)
(* what is stored and not yet sent on this connection, in order, and stops at  *)
(* the first stored packet that is longer than the limit (as built: known      *)
(* finding D12 -- it stays there and every operation fails as too large).      *)
(* A request longer than the limit is refused and leaves nothing behind; an    *)
(* acknowledgement that does not fit closes the connection, and an inbound      *)
(* QoS 2 identifier is recorded only once its PUBREC is queued (D17, repaired; *)
(* deviation "sid_before_check" is the code as it was).                        *)
(***************************************************************************)
EXTENDS Naturals, Sequences, FiniteSets, TLC

CONSTANTS Lens,      \* total lengths of the requests explored
          Maxes,     \* limits a CONNACK may announce; NoLimit stands for a CONNACK without the property
          InIds,     \* identifiers of inbound QoS 2 messages
          MaxOps, MaxConn,
          Stalls,    \* TRUE: a poll may be dropped while the acknowledgement it queued is not yet written
          Dev,       \* "replay_unchecked", "retain_before_check", "sid_before_check", "q0_unchecked", "ack_unchecked"
          Record

NoLimit == 1000000
AckLen == 5          \* PUBACK / PUBREC / PUBCOMP as this client sends them (always with the reason byte)
MaxRet == 8

VARIABLES max,        \* limit of the current connection (NoLimit: none announced)
          live, conn, ops,
          ret,        \* stored requests: << [len, sc] >>, sc = connection on which it was (last) sent
          sids,       \* inbound QoS 2 identifiers recorded as received
          owed,       \* broker side: QoS 2 messages sent and not yet answered with PUBREC
          relq,       \* broker side: PUBREC received, PUBREL to be sent
          got,        \* identifier -> number of deliveries to the application
          sentmsg,    \* identifier -> number of distinct messages the broker sent under it
          pend,       \* an acknowledgement is queued and unsent (left by a stalled poll that was dropped)
          viol,
          kf,         \* known findings met (as built): "D12", "D14"
          hist
vars == << max, live, conn, ops, ret, sids, owed, relq, got, sentmsg, pend, viol, kf, hist >>

Fits(len) == len <= max

Log(a, p, r) ==
  IF Record THEN Append(hist, [a |-> a, p |-> p, r |-> r, live |-> live', nret |-> Len(ret'), max |-> max'])
  ELSE hist

Init ==
  /\ max \in Maxes /\ live = TRUE /\ conn = 1 /\ ops = 0
  /\ ret = << >> /\ sids = {} /\ owed = {} /\ relq = {}
  /\ got = [i \in InIds |-> 0] /\ sentmsg = [i \in InIds |-> 0]
  /\ pend = FALSE /\ viol = {} /\ kf = {} /\ hist = << >>

\* ---- flush_outbound: the queued acknowledgement first, then stored packets not yet sent on this connection,
\* in order (outbound.rs next_step) ---------------------------------------------------------------------------
\* As built (known finding D14): an acknowledgement carried into a connection whose limit it exceeds is not
\* sent, not dropped, and the connection is not closed -- every operation fails as too large.
AckBlocked == pend /\ ~Fits(AckLen)
Unsent == {i \in 1..Len(ret) : ret[i].sc < conn}
Bad == IF "replay_unchecked" \in Dev THEN {} ELSE {i \in Unsent : ~Fits(ret[i].len)}
Blocked == AckBlocked \/ Bad # {}
FirstBad == IF AckBlocked THEN 0 ELSE CHOOSE i \in Bad : \A j \in Bad : i <= j
\* the stored packets after the flush, and what the flush put on the wire
Flushed == [i \in 1..Len(ret) |-> IF ret[i].sc < conn /\ (~Blocked \/ i < FirstBad) THEN [ret[i] EXCEPT !.sc = conn] ELSE ret[i]]
FlushWire == {ret[i].len : i \in {j \in Unsent : ~Blocked \/ j < FirstBad}} \cup (IF pend /\ ~AckBlocked THEN {AckLen} ELSE {})
\* what a refusal behind a blocked queue means: a packet from an EARLIER connection that the new limit no longer
\* admits (D12), the carried-over acknowledgement (D14) -- anything else is a violation
RefusedBehind(len) ==
  IF ~Fits(len) THEN << {}, {} >>
  ELSE IF AckBlocked THEN << {}, {"D14"} >>
  ELSE IF ret[FirstBad].sc = 0 THEN << {"refused_although_fits"}, {} >>
  ELSE << {}, {"D12"} >>
PollBehind == IF AckBlocked THEN {"D14"} ELSE IF ret[FirstBad].sc = 0 THEN {} ELSE {"D12"}
WireViol(lens) == IF \E l \in lens : ~Fits(l) THEN {"oversize_sent"} ELSE {}

\* ---- requests ------------------------------------------------------------------------------------------
\* QoS 1 publish of total length len
Pub(len) ==
  /\ live /\ ops < MaxOps /\ ops' = ops + 1
  /\ UNCHANGED << max, live, conn, sids, owed, relq, got, sentmsg >>
  /\ pend' = AckBlocked
  /\ kf' = IF Blocked THEN kf \cup RefusedBehind(len)[2] ELSE kf
  /\ IF Blocked THEN
        \* the request is refused whatever its own length
        /\ ret' = Flushed
        /\ viol' = viol \cup WireViol(FlushWire) \cup RefusedBehind(len)[1]
        /\ hist' = Log("pub", len, "PacketTooLarge")
     ELSE IF Len(ret) = MaxRet THEN
        /\ ret' = Flushed /\ viol' = viol \cup WireViol(FlushWire)
        /\ hist' = Log("pub", len, "InflightExhausted")
     ELSE IF ~Fits(len) /\ "retain_before_check" \notin Dev THEN
        /\ ret' = Flushed /\ viol' = viol \cup WireViol(FlushWire)
        /\ hist' = Log("pub", len, "PacketTooLarge")
     ELSE IF ~Fits(len) THEN
        \* deviation: stored first, refused afterwards -- it goes out with the next flush
        /\ ret' = Append(Flushed, [len |-> len, sc |-> 0])
        /\ viol' = viol \cup WireViol(FlushWire)
        /\ hist' = Log("pub", len, "PacketTooLarge")
     ELSE
        /\ ret' = Append(Flushed, [len |-> len, sc |-> conn])
        /\ viol' = viol \cup WireViol(FlushWire \cup {len})
        /\ hist' = Log("pub", len, "ok")

\* QoS 0 publish: nothing is stored
Q0(len) ==
  /\ live /\ ops < MaxOps /\ ops' = ops + 1
  /\ UNCHANGED << max, live, conn, sids, owed, relq, got, sentmsg >>
  /\ pend' = AckBlocked
  /\ kf' = IF Blocked THEN kf \cup RefusedBehind(len)[2] ELSE kf
  /\ ret' = Flushed
  /\ IF Blocked THEN
        /\ viol' = viol \cup WireViol(FlushWire) \cup RefusedBehind(len)[1]
        /\ hist' = Log("q0", len, "PacketTooLarge")
     ELSE IF ~Fits(len) /\ "q0_unchecked" \notin Dev THEN
        /\ viol' = viol \cup WireViol(FlushWire)
        /\ hist' = Log("q0", len, "PacketTooLarge")
     ELSE
        /\ viol' = viol \cup WireViol(FlushWire \cup {len})
        /\ hist' = Log("q0", len, "ok")

\* poll(): flush, then read what the broker sent -- here the PUBACKs of everything sent on this connection
Poll ==
  /\ live /\ ops < MaxOps /\ ops' = ops + 1
  /\ UNCHANGED << max, live, conn, sids, owed, relq, got, sentmsg >>
  /\ pend' = AckBlocked
  /\ kf' = IF Blocked THEN kf \cup PollBehind ELSE kf
  /\ viol' = viol \cup WireViol(FlushWire)
  /\ IF Blocked THEN
        /\ ret' = Flushed
        /\ hist' = Log("poll", Len(ret), "PacketTooLarge")
     ELSE
        /\ ret' = << >>
        /\ hist' = Log("poll", Len(ret), "ok")

\* ---- inbound traffic (the polls that read it included) ----------------------------------------------------
\* The inbound stream is read in order: the PUBACKs of what was sent before come first and empty the store.
\* What this very poll flushes first is acknowledged behind the inbound packet: if that packet closes the
\* connection those acknowledgements are lost and the packets stay stored (all of them -- a first flush on a
\* connection sends everything or the operation is not enabled).
AfterAcks(closed) == IF closed /\ Unsent # {} THEN Flushed ELSE << >>

\* a QoS 1 PUBLISH: delivered and acknowledged, or -- if the PUBACK does not fit -- the connection is closed
In1 ==
  /\ live /\ ~Blocked /\ ops < MaxOps /\ ops' = ops + 1
  /\ UNCHANGED << max, conn, sids, owed, relq, got, sentmsg, kf >>
  /\ pend' = FALSE
  /\ IF Fits(AckLen) \/ "ack_unchecked" \in Dev THEN
        /\ live' = TRUE /\ viol' = viol \cup WireViol(FlushWire \cup {AckLen})
        /\ ret' = AfterAcks(FALSE)
        /\ hist' = Log("in1", Len(ret), "msg")
     ELSE
        /\ live' = FALSE /\ viol' = viol \cup WireViol(FlushWire)
        /\ ret' = AfterAcks(TRUE)
        /\ hist' = Log("in1", Len(ret), "PacketTooLarge")

\* a QoS 2 PUBLISH under identifier i: a new message (the identifier is free at the broker) or the
\* retransmission of one that was never answered with PUBREC
In2(i) ==
  /\ live /\ ~Blocked /\ ops < MaxOps /\ ops' = ops + 1
  /\ i \notin relq
  /\ i \notin owed => i \notin sids          \* the broker reuses an identifier only after PUBCOMP
  /\ UNCHANGED << max, conn, kf >>
  /\ pend' = FALSE
  /\ ret' = AfterAcks(~Fits(AckLen))
  /\ sentmsg' = IF i \in owed THEN sentmsg ELSE [sentmsg EXCEPT ![i] = @ + 1]
  /\ IF Fits(AckLen) THEN
        /\ live' = TRUE
        /\ sids' = sids \cup {i}
        /\ got' = IF i \in sids THEN got ELSE [got EXCEPT ![i] = @ + 1]
        /\ owed' = owed \ {i}
        /\ relq' = relq \cup {i}
        /\ viol' = viol \cup WireViol(FlushWire \cup {AckLen})
        /\ hist' = Log("in2", << i, Len(ret), IF i \in owed THEN 1 ELSE 0 >>, IF i \in sids THEN "none" ELSE "msg")
     ELSE
        /\ live' = FALSE
        /\ sids' = IF "sid_before_check" \in Dev THEN sids \cup {i} ELSE sids
        /\ got' = got /\ owed' = owed \cup {i} /\ UNCHANGED relq
        /\ viol' = viol \cup WireViol(FlushWire)
        /\ hist' = Log("in2", << i, Len(ret), IF i \in owed THEN 1 ELSE 0 >>, "PacketTooLarge")

\* the PUBREL for i: answered with PUBCOMP, the identifier is free again
Rel(i) ==
  /\ live /\ ~Blocked /\ ops < MaxOps /\ ops' = ops + 1
  /\ i \in relq
  /\ UNCHANGED << max, conn, owed, got, sentmsg, kf >>
  /\ pend' = FALSE
  /\ ret' = AfterAcks(~Fits(AckLen))
  /\ IF Fits(AckLen) THEN
        /\ live' = TRUE /\ sids' = sids \ {i} /\ relq' = relq \ {i}
        /\ viol' = viol \cup WireViol(FlushWire \cup {AckLen})
        /\ hist' = Log("rel", << i, Len(ret) >>, "none")
     ELSE
        \* as built: the identifier is released when the PUBREL is read; the retransmitted PUBREL is then
        \* answered "not found" (the message was delivered: harmless)
        /\ live' = FALSE /\ sids' = sids \ {i} /\ UNCHANGED relq
        /\ viol' = viol \cup WireViol(FlushWire)
        /\ hist' = Log("rel", << i, Len(ret) >>, "PacketTooLarge")

\* a QoS 1 PUBLISH is read and delivered, its PUBACK queued -- and the transport stalls: the application drops
\* the poll, the acknowledgement stays queued (it is sent by the next flush, also on a later connection)
StallIn1 ==
  /\ Stalls /\ live /\ ~Blocked /\ ~pend /\ ops < MaxOps /\ ops' = ops + 1
  /\ Fits(AckLen)
  /\ UNCHANGED << max, conn, live, sids, owed, relq, got, sentmsg, kf >>
  /\ pend' = TRUE
  /\ ret' = AfterAcks(FALSE)
  /\ viol' = viol \cup WireViol(FlushWire)
  /\ hist' = Log("stallin1", Len(ret), "msg")

\* ---- connections ------------------------------------------------------------------------------------------
Drop ==
  /\ live /\ conn < MaxConn
  /\ live' = FALSE
  /\ UNCHANGED << max, conn, ops, ret, sids, owed, relq, got, sentmsg, pend, viol, kf >>
  /\ hist' = Log("drop", 0, "")

\* the broker resumes the session and announces limit m (CONNECT itself is not subject to any limit)
Connect(m) ==
  /\ ~live /\ conn < MaxConn
  /\ live' = TRUE /\ max' = m /\ conn' = conn + 1
  /\ UNCHANGED << ops, ret, sids, owed, relq, got, sentmsg, pend, viol, kf >>
  /\ hist' = Log("conn", m, "ok")

Next ==
  \/ \E len \in Lens : Pub(len) \/ Q0(len)
  \/ Poll \/ In1 \/ StallIn1 \/ (\E i \in InIds : In2(i) \/ Rel(i))
  \/ Drop \/ (\E m \in Maxes : Connect(m))

Spec == Init /\ [][Next]_vars

\* ---- properties --------------------------------------------------------------------------------------------
\* C14: nothing longer than the limit of the current CONNACK is ever transmitted
Inv_C14_wire == "oversize_sent" \notin viol
\* C14: whatever is stored fitted the limit of the connection it was accepted on, so a stored packet is
\* oversize only against a LATER, smaller limit (which is finding D12 and nothing else)
Inv_C14_stored == \A i \in 1..Len(ret) : ret[i].sc > 0
\* C12 / C14: a request that fits is refused as too large only behind such a packet
Inv_C12_usable == "refused_although_fits" \notin viol
\* the only ways into a queue that refuses everything are the two recorded findings
Inv_KF == kf \subseteq {"D12", "D14"}
\* C04: an identifier recorded as received belongs to a message that was delivered; no message twice
Inv_C04_recorded == \A i \in sids : got[i] >= 1
Inv_C04_once == \A i \in InIds : got[i] <= sentmsg[i]
\* C04: and a message the broker got its PUBREC for was delivered
Inv_C04_delivered == \A i \in InIds : (i \notin owed) => got[i] = sentmsg[i]
=============================================================================
