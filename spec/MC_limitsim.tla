----------------------------- MODULE MC_limitsim -----------------------------
(* Behaviour generation for the Maximum Packet Size module (see tools/replay_limits.py). *)
EXTENDS Limits, Json

Emit == (hist # << >>) => PrintT("@H " \o ToString(TLCGet("stats").traces) \o " " \o ToJson(hist))
\* simulation only: a connection is not thrown away before anything happened on it
SimDrop == (live /\ ~live' /\ Len(hist') > Len(hist) /\ hist'[Len(hist')].a = "drop") => (ops > 0 /\ hist[Len(hist)].a # "conn")
=============================================================================
