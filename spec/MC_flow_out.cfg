SPECIFICATION Spec
CONSTANTS
  MaxOps = 2
  MaxConns = 2
  IdMax = 3
  Cap = 2
  CtlCap = 2
  RMs = {1, 2, 3}
  MaxIn = 0
  MaxFail = 0
  MaxQ0 = 0
  Kinds = {"P1", "P2", "SUB"}
  Parts = {TRUE, FALSE}
  MaxCancel = 1
  MaxFault = 1
  Zeros = FALSE
  Dev = {}
  Record = FALSE
VIEW View
INVARIANTS
  Inv_Usable
  Inv_C04 Inv_C01 Inv_C02 Inv_C03 Inv_C05 Inv_C06 Inv_C07 Inv_C11 Inv_C12 Inv_C16 Inv_C18 Inv_Caps
PROPERTY QuotaRefines
CHECK_DEADLOCK FALSE
