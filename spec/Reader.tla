------------------------------- MODULE Reader -------------------------------
(***************************************************************************)
(* The inbound packet reader (src/de/packet_reader.rs) driven by             *)
(* fill_packet_reader (session/drive.rs), byte for byte, under EVERY way the   *)
(* transport may split the inbound stream across read() calls.                *)
(*                                                                          *)
(* One step = one read() call: the reader asks for `Want` bytes (exactly the    *)
(* missing bytes of the current packet; one byte at a time while the remaining  *)
(* length is unknown), the transport hands over 1..Want of them.               *)
(*                                                                          *)
(* Properties: the reader never asks for bytes beyond its buffer (C14), and the  *)
(* sequence of frames it hands to the decoder -- or the point where it rejects    *)
(* the stream -- is a function of the stream alone, not of the chunking (C15);    *)
(* that function is the oracle Frames below, written from the MQTT framing rule.  *)
(***************************************************************************)
EXTENDS Naturals, Sequences, TLC

CONSTANTS Streams,   \* set of inbound byte streams (sequences of 0..255)
          RX,        \* receive buffer length
          Dev,       \* deviations: "reset_keeps_length", "window_two" (asks for two bytes while the length is unknown)
          Record     \* keep the history of read() calls (behaviour generation)

VARIABLES stream,    \* the stream being read
          pos,       \* bytes consumed from it
          buf,       \* bytes of the packet being assembled (buffer[0..read_bytes))
          pl,        \* packet_length: 0 = unknown
          out,       \* what the reader produced so far: frames, then possibly "error"
          dead,
          hist

vars == << stream, pos, buf, pl, out, dead, hist >>

Min(a, b) == IF a < b THEN a ELSE b
rb == Len(buf)

\* probe_fixed_header: remaining length from buffer[1..read_bytes), at most four bytes
RECURSIVE ProbeFrom(_, _, _, _)
ProbeFrom(b, i, acc, mult) ==
  IF i > Len(b) \/ i > 5 THEN 0
  ELSE IF b[i] < 128 THEN i + acc + (b[i] % 128) * mult          \* header bytes (1 + length bytes) + remaining length
  ELSE ProbeFrom(b, i + 1, acc + (b[i] % 128) * mult, mult * 128)

Probe(b) == IF Len(b) <= 1 THEN 0 ELSE ProbeFrom(b, 2, 0, 1)

\* receive_buffer(): the window the next read() may fill, or an error
Pl2 == IF pl # 0 THEN pl ELSE Probe(buf)
ProbeFails == pl = 0 /\ Probe(buf) = 0 /\ rb >= 5
End == IF Pl2 # 0 THEN Pl2 ELSE rb + (IF "window_two" \in Dev THEN 2 ELSE 1)
WindowFails == End > RX
Want == End - rb

Init ==
  /\ stream \in Streams
  /\ pos = 0 /\ buf = << >> /\ pl = 0 /\ out = << >> /\ dead = FALSE /\ hist = << >>

\* the complete packet is handed to the decoder, the reader resets
Deliver ==
  /\ ~dead /\ Pl2 # 0 /\ rb >= Pl2
  /\ out' = Append(out, SubSeq(buf, 1, Pl2))
  /\ buf' = << >> /\ pl' = 0
  /\ hist' = IF Record THEN Append(hist, [a |-> "deliver", len |-> Pl2]) ELSE hist
  /\ UNCHANGED << stream, pos, dead >>

Reject ==
  /\ ~dead /\ ~(Pl2 # 0 /\ rb >= Pl2)
  /\ ProbeFails \/ WindowFails
  /\ out' = Append(out, "error") /\ dead' = TRUE
  /\ buf' = << >> /\ pl' = IF "reset_keeps_length" \in Dev THEN Pl2 ELSE 0
  /\ hist' = IF Record THEN Append(hist, [a |-> "reject", len |-> 0]) ELSE hist
  /\ UNCHANGED << stream, pos >>

\* one read() call that returns k bytes
Read(k) ==
  /\ ~dead /\ ~(Pl2 # 0 /\ rb >= Pl2) /\ ~ProbeFails /\ ~WindowFails
  /\ k \in 1..Min(Want, Len(stream) - pos)
  /\ buf' = buf \o SubSeq(stream, pos + 1, pos + k)
  /\ pl' = Pl2
  /\ pos' = pos + k
  /\ hist' = IF Record THEN Append(hist, [a |-> "read", want |-> Want, got |-> k]) ELSE hist
  /\ UNCHANGED << stream, out, dead >>

Next == Deliver \/ Reject \/ \E k \in 1..RX : Read(k)
Spec == Init /\ [][Next]_vars

\* ---- oracle: the frames of a stream by the MQTT framing rule, independent of any chunking -------
RECURSIVE RL(_, _, _, _, _)
\* remaining length starting at s[i]: << bytes used, value >>, << 0, 0 >> if it does not end within
\* four bytes, << 0, 1 >> if the stream ends first
RL(s, i, n, acc, mult) ==
  IF n > 4 THEN << 0, 0 >>
  ELSE IF i > Len(s) THEN << 0, 1 >>
  ELSE IF s[i] < 128 THEN << n, acc + s[i] * mult >>
  ELSE RL(s, i + 1, n + 1, acc + (s[i] % 128) * mult, mult * 128)

RECURSIVE Frames(_, _)
Frames(s, acc) ==
  IF s = << >> THEN acc
  ELSE IF Len(s) < 2 THEN acc                                   \* incomplete: the reader waits
  ELSE LET r == RL(s, 2, 1, 0, 1) IN
       IF r = << 0, 0 >> THEN Append(acc, "error")               \* fifth length byte
       ELSE IF r = << 0, 1 >> THEN
            \* the stream ends inside the length; with five bytes read and no length the reader gives up
            IF Len(s) >= 5 THEN Append(acc, "error") ELSE acc
       ELSE LET total == 1 + r[1] + r[2] IN
            IF total > RX THEN Append(acc, "error")
            ELSE IF Len(s) < total THEN acc
            ELSE Frames(SubSeq(s, total + 1, Len(s)), Append(acc, SubSeq(s, 1, total)))

IsPrefix(a, b) == Len(a) <= Len(b) /\ SubSeq(b, 1, Len(a)) = a

\* C14 (inbound): the window never leaves the buffer
Inv_C14_in == rb <= RX /\ (~dead /\ ~WindowFails /\ ~ProbeFails => End <= RX)
\* C15: what has been produced is what the stream determines, whatever the chunking
Inv_C15r == IsPrefix(out, Frames(stream, << >>))
\* and once the stream is exhausted and nothing more can be done, everything determined was produced
Inv_C15r_done ==
  (pos = Len(stream) /\ ~ENABLED Deliver /\ ~ENABLED Reject) => out = Frames(stream, << >>)
\* nothing of a rejected or half-read packet survives
Inv_C12r == dead => (buf = << >> /\ pl = 0)
=============================================================================
